"""Mode S uplink (interrogation) formats, Annex 10 Vol IV 3.1.2.6.1 / 3.1.2.5.2.1 / 3.1.2.3.3.2.
Bit numbers are 1-based in the 56/112-bit interrogation.
  all formats : UF 1-5
  UF4/5/20/21 : RR 9-13, DI 14-16, SD 17-32 with  DI=0: IIS 17-20;  DI=1: IIS 17-20, LOS 26;
                DI=7: IIS 17-20, RRS 21-24, LOS 26;  DI=3: SIS 17-22, LSS 23, RRS 24-27
  UF11        : PR 6-9, IC 10-13, CL 14-16
  AP (last 24 bits): parity(data) xor the top 24 bits of A(x) G(x), A the 24-bit address
    (the uplink address is multiplied by the generator before the overlay)
"""
from vc.api import require, hex_of_bits, bits_of
from spec import F
from spec import crc_spec


def clmul_top24(addr_bits):
    """top 24 coefficients of A(x) * G(x) over GF(2)"""
    prod = [0] * 48
    for i in range(24):
        a = int(addr_bits[i])
        for j in range(25):
            if crc_spec.GEN_BITS[j]:
                prod[i + j] = prod[i + j] ^ a
    r = 0
    for k in range(24):
        r = (r << 1) | prod[k]
    return r


def ap_field(data_bits, addr_bits):
    """the address/parity field an interrogator transmits for address A"""
    return crc_spec.REM(data_bits + "0" * 24) ^ clmul_top24(addr_bits)


def bits_of_frame(msg):
    require(len(msg) == 14 or len(msg) == 28, "56- or 112-bit interrogation")
    return F.hexbits(msg)


def uf(msg):
    return F.df_of(bits_of_frame(msg))


def selective(u):
    return u == 4 or u == 5 or u == 20 or u == 21


def bds(msg):
    bits = bits_of_frame(msg)
    u = F.df_of(bits)
    if not selective(u):
        return None
    rr = F.field(bits, 9, 13)
    di = F.field(bits, 14, 16)
    if rr <= 15:
        return None
    bds2 = 0
    if di == 7:
        bds2 = F.field(bits, 21, 24)
    if di == 3:
        bds2 = F.field(bits, 24, 27)
    return hexdigit(rr - 16) + hexdigit(bds2)


def hexdigit(v):
    return hex_of_bits(bits_of(v, 4))


def pr(msg):
    bits = bits_of_frame(msg)
    if F.df_of(bits) != 11:
        return None
    return F.field(bits, 6, 9)


def ic(msg):
    bits = bits_of_frame(msg)
    u = F.df_of(bits)
    if u == 11:
        cl = F.field(bits, 14, 16)
        code = F.field(bits, 10, 13)
        if cl == 0:
            return "II" + str(code)
        if cl <= 4:
            return "SI" + str(code + 16 * (cl - 1))
        return ""
    if selective(u):
        di = F.field(bits, 14, 16)
        if di == 0 or di == 1 or di == 7:
            return "II" + str(F.field(bits, 17, 20))
        if di == 3:
            return "SI" + str(F.field(bits, 17, 22))
    return None


def lockout(msg):
    bits = bits_of_frame(msg)
    if not selective(F.df_of(bits)):
        return None
    di = F.field(bits, 14, 16)
    if di == 1 or di == 7:
        return F.bit(bits, 26) == 1
    if di == 3:
        return F.bit(bits, 23) == 1
    return False
