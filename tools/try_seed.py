"""usage: try_seed.py <seed dir with patch.diff demo.py meta.json> <PROP> [more props]
applies the patch to /repo, runs the pinned tests, the demo, and ./check PROP quick; always reverts"""
import json, subprocess, sys, os
d = sys.argv[1]; props = sys.argv[2:]
def run(cmd, cwd=None, env=None, timeout=3600):
    r = subprocess.run(cmd, cwd=cwd, capture_output=True, text=True, env=env, timeout=timeout)
    return r.returncode, (r.stdout + r.stderr)
env = dict(os.environ, PYTHONPATH="/repo/src")
rc, out = run(["/venv/bin/python", os.path.join(d, "demo.py")], env=env)
print("demo on clean tree: exit", rc)
rc, out = run(["git", "-C", "/repo", "apply", os.path.join(d, "patch.diff")])
if rc != 0:
    print("patch does not apply:", out); sys.exit(2)
try:
    rc, out = run(["/venv/bin/python", "-m", "pytest", "-q", "-p", "no:cacheprovider"], cwd="/repo")
    print("tests with patch:", out.strip().splitlines()[-1])
    rc, out = run(["/venv/bin/python", os.path.join(d, "demo.py")], env=env)
    print("demo with patch: exit", rc, out.strip().splitlines()[-1][:200] if out.strip() else "")
    for p in props:
        rc, out = run(["./check", p, "quick"], cwd="/verif")
        lines = [l for l in out.strip().splitlines() if not l.startswith("  consequence")]
        print("check %s: exit %d" % (p, rc))
        for l in lines[:6] + lines[-2:]:
            print("   ", l[:260])
finally:
    run(["git", "-C", "/repo", "checkout", "--", "."])
