"""ADS-B (DF17/18 extended squitter) field layouts, DO-260B 2.2.3.2 / Annex 10 Vol IV.
ME bit numbers are 1-based within the 56-bit ME field (frame bits 33-88)."""
from vc.api import require
from spec import F
from spec import alt_spec


def need112(msg):
    require(len(msg) == 28, "112-bit frame")
    return F.hexbits(msg)


# ----------------------------------------------------------------------------- altitude (C07)
def altitude05(msg):
    bits = need112(msg)
    tc = F.tc_of(bits)
    if tc is None or tc < 9 or tc == 19 or tc > 22:
        raise RuntimeError("not an airborne position message")
    me = F.me(bits)
    if tc <= 18:
        return alt_spec.alt12(me[8:20])
    return F.field(me, 9, 20) * alt_spec.FT_PER_M


def altitude(msg):
    bits = need112(msg)
    tc = F.tc_of(bits)
    if tc is None or tc < 5 or tc == 19 or tc > 22:
        raise RuntimeError("not a position message")
    if tc <= 8:
        return 0
    return altitude05(msg)


def surv_altitude(msg):
    require(len(msg) == 14 or len(msg) == 28, "56- or 112-bit frame")
    bits = F.hexbits(msg)
    d = F.df_of(bits)
    if d == 4:
        return alt_spec.alt13(bits[19:32])
    raise RuntimeError("DF4 expected (DF5 carries an identity code, not an altitude)")


# ----------------------------------------------------------------------------- identification (C10)
def six_bit_char(c):
    """Annex 10 Vol IV table 3-9 six-bit character set: 1-26 -> A-Z, 32 -> space (shown as
    '_'), 48-57 -> 0-9.  Every other code is not a legal identification character ('#')."""
    ch = "#"
    if 1 <= c and c <= 26:
        ch = chr(64 + c)
    if c == 32:
        ch = "_"
    if 48 <= c and c <= 57:
        ch = chr(c)
    return ch


def ident_chars(field48):
    out = ""
    for i in range(8):
        ch = six_bit_char(int(field48[6 * i:6 * i + 6], 2))
        out = out + ch
    return out


def drop_marks(s):
    out = ""
    for ch in s:
        if ch != "#":
            out = out + ch
    return out


def callsign(msg):
    bits = need112(msg)
    tc = F.tc_of(bits)
    if tc is None or tc < 1 or tc > 4:
        raise RuntimeError("not an identification message")
    me = F.me(bits)
    return drop_marks(ident_chars(me[8:56]))


def category(msg):
    bits = need112(msg)
    tc = F.tc_of(bits)
    if tc is None or tc < 1 or tc > 4:
        raise RuntimeError("not an identification message")
    return F.field(F.me(bits), 6, 8)


def cs20(msg):
    bits = need112(msg)
    return ident_chars(F.me(bits)[8:56])
