"""Solver layer: z3 (Python API) first, cvc5 / z3 CLI on the SMT-LIB dump for `unknown`."""
import os
import subprocess
import tempfile
import time
import z3

FEAS_TIMEOUT_MS = int(os.environ.get("VC_FEAS_TIMEOUT_MS", "4000"))


class PathSolver:
    """incremental solver carrying the path condition of the current path"""

    def __init__(self):
        self.s = z3.Solver()
        self.pc = []
        self.nqueries = 0
        self.time = 0.0

    def add(self, c):
        if c is True:
            return
        if c is False:
            c = z3.BoolVal(False)
        self.pc.append(c)
        self.s.add(c)

    def feasible(self, extra):
        """True unless pc & extra is proved unsat (unknown counts as feasible)"""
        t0 = time.time()
        self.s.push()
        try:
            self.s.set("timeout", FEAS_TIMEOUT_MS)
            self.s.add(extra)
            r = self.s.check()
        finally:
            self.s.pop()
        self.nqueries += 1
        self.time += time.time() - t0
        return r != z3.unsat

    def prove(self, goal, timeout_ms):
        """(status, model, seconds, backend): status in proved / refuted / unknown"""
        t0 = time.time()
        self.nqueries += 1
        if goal is True:
            return "proved", None, 0.0, "trivial"
        if goal is False:
            neg = z3.BoolVal(True)
        else:
            neg = z3.Not(goal)
        self.s.push()
        try:
            self.s.set("timeout", int(timeout_ms))
            self.s.add(neg)
            r = self.s.check()
            model = self.s.model() if r == z3.sat else None
        finally:
            self.s.pop()
        dt = time.time() - t0
        self.time += dt
        if r == z3.unsat:
            return "proved", None, dt, "z3"
        if r == z3.sat:
            return "refuted", model, dt, "z3"
        # unknown: second opinion on a fresh solver / external solvers
        st, dt2, be = second_opinion(self.pc + [neg], timeout_ms)
        if st == "unsat":
            return "proved", None, dt + dt2, be
        return "unknown", None, dt + dt2, "z3+" + be

    def model_value(self, term):
        self.s.set("timeout", FEAS_TIMEOUT_MS)
        if self.s.check() != z3.sat:
            return None
        return self.s.model().eval(term, model_completion=True)


def second_opinion(constraints, timeout_ms):
    """try cvc5 and the newer z3 CLI on the SMT-LIB2 dump; only `unsat` is trusted
    (a `sat` from an external solver gives no model we can replay, so it stays unknown)"""
    s = z3.Solver()
    s.add(*constraints)
    smt = s.to_smt2()
    t0 = time.time()
    verdict = "unknown"
    backend = "none"
    with tempfile.NamedTemporaryFile("w", suffix=".smt2", delete=False) as f:
        f.write("(set-logic ALL)\n" + smt)
        path = f.name
    try:
        secs = max(1, int(timeout_ms / 1000))
        for name, cmd in (
            ("cvc5", ["/usr/bin/cvc5", "--tlimit=%d" % (secs * 1000), path]),
            ("z3-new", ["z3-new", "-T:%d" % secs, path]),
        ):
            try:
                out = subprocess.run(cmd, capture_output=True, text=True, timeout=secs + 5).stdout
            except Exception:
                continue
            first = out.strip().splitlines()[0] if out.strip() else ""
            if first == "unsat":
                verdict, backend = "unsat", name
                break
    finally:
        try:
            os.unlink(path)
        except OSError:
            pass
    return verdict, time.time() - t0, backend
