"""prints the markdown table of /verif/seeded/*/meta.json (seeded changes and benign changes) for DESIGN.md"""
import json, os, glob
rows = []
for d in sorted(glob.glob("/verif/seeded/*/")):
    name = os.path.basename(d.rstrip("/"))
    try:
        m = json.load(open(d + "meta.json"))
    except Exception:
        continue
    if name.startswith("benign"):
        continue
    what = (m.get("what_breaks") or m.get("what") or "").replace("\n", " ").replace("|", "/")
    how = (m.get("how") or "").replace("\n", " ").replace("|", "/")
    rows.append("| %s | %s | %s: %s |" % (name, what[:230] + ("…" if len(what) > 230 else ""), m.get("detection", "?"), how[:260] + ("…" if len(how) > 260 else "")))
print("| seed | change | detection |\n|---|---|---|")
print("\n".join(rows))
print()
print("| benign change | what | observed |\n|---|---|---|")
for d in sorted(glob.glob("/verif/seeded/benign*/")):
    m = json.load(open(d + "meta.json"))
    print("| %s | %s | %s |" % (os.path.basename(d.rstrip("/")), (m.get("what") or m.get("what_changed") or "")[:260].replace("|", "/"), (m.get("observed") or "")[:200].replace("|", "/")))
