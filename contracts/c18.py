"""C18 - uplink interrogation decoding."""
from vc.api import (harness, contract, repo, outcome, assume, bits_of, hex_of_bits, BinStr, HexStr, IntRange, Choice)
from spec import F
from spec import uplink_spec

UP = repo("pyModeS.decoder.uplink")
U = "pyModeS.decoder.uplink."


@harness("C18", inputs={"data": BinStr((32, 88)), "addr": BinStr(24), "case": BinStr((14, 28))},
         functions=[U + "uplink_icao"], body_of=[U + "uplink_icao"])
def uplink_icao_roundtrip(data, addr, case):
    assume(len(data) + 24 == 4 * len(case))
    ap = uplink_spec.ap_field(data, addr)
    msg = hex_of_bits(data + bits_of(ap, 24), case)
    assert UP.uplink_icao(msg) == hex_of_bits(addr), \
        "uplink_icao(data || parity(data) xor top24(A G)) == '%06X' % A for all addresses and payloads"


@harness("C18", inputs={"msg": HexStr((14, 28)), "name": Choice("uf", "bds", "pr", "ic", "lockout")},
         functions=[U + n for n in ("uf", "bds", "pr", "ic", "lockout")],
         body_of=[U + n for n in ("uf", "bds", "pr", "ic", "lockout")])
def uplink_field_body(msg, name):
    assert outcome(getattr(UP, name), msg) == outcome(getattr(uplink_spec, name), msg), \
        "uplink field == Annex 10 position for every UF x RR x DI x RRS x IIS/SIS x LOS/LSS x PR x CL x IC"


@harness("C18", inputs={"msg": HexStr((14, 28))}, functions=[U + "uplink_fields"], body_of=[U + "uplink_fields"])
def uplink_fields_agree(msg):
    f = UP.uplink_fields(msg)
    b = uplink_spec.bds(msg)
    p = uplink_spec.pr(msg)
    i = uplink_spec.ic(msg)
    lo = uplink_spec.lockout(msg)
    if b is not None:
        assert f["BDS"] == b, "uplink_fields()['BDS'] == bds()"
    if p is not None:
        assert f["PR"] == p, "uplink_fields()['PR'] == pr()"
    if i is not None:
        assert f["IC"] == i, "uplink_fields()['IC'] == ic()"
    if lo is not None:
        assert f["LOS"] == lo, "uplink_fields()['LOS'] == lockout()"
