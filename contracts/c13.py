"""C13 - ADS-B status, intent and quality indicators (TC 19/28/29/31)."""
from vc.api import (harness, contract, repo, outcome, outcome_close, assume, BinStr, HexStr, IntRange, Choice)
from spec import F
from spec import adsb_spec

B61 = repo("pyModeS.decoder.bds.bds61")
B62 = repo("pyModeS.decoder.bds.bds62")
ADSB = repo("pyModeS.decoder.adsb")
UNC = repo("pyModeS.decoder.uncertainty")
D61 = "pyModeS.decoder.bds.bds61."
D62 = "pyModeS.decoder.bds.bds62."
A = "pyModeS.decoder.adsb."

N61 = ["is_emergency", "emergency_state"]
N62 = ["selected_altitude", "baro_pressure_setting", "selected_heading", "autopilot", "vnav_mode",
       "altitude_hold_mode", "approach_mode", "lnav_mode", "tcas_operational", "target_altitude", "vertical_mode",
       "horizontal_mode", "tcas_ra", "emergency_status"]
NADSB = ["version", "nic_s", "nic_a_c", "nic_b"]

contract(D61 + "is_emergency")(adsb_spec.is_emergency)
contract(D61 + "emergency_state")(adsb_spec.emergency_state)
contract(D62 + "selected_altitude")(adsb_spec.selected_altitude)
contract(D62 + "baro_pressure_setting")(adsb_spec.baro_pressure_setting)
contract(D62 + "selected_heading")(adsb_spec.selected_heading)
contract(D62 + "autopilot")(adsb_spec.autopilot)
contract(D62 + "vnav_mode")(adsb_spec.vnav_mode)
contract(D62 + "altitude_hold_mode")(adsb_spec.altitude_hold_mode)
contract(D62 + "approach_mode")(adsb_spec.approach_mode)
contract(D62 + "lnav_mode")(adsb_spec.lnav_mode)
contract(D62 + "tcas_operational")(adsb_spec.tcas_operational)
contract(D62 + "target_altitude")(adsb_spec.target_altitude)
contract(D62 + "vertical_mode")(adsb_spec.vertical_mode)
contract(D62 + "horizontal_mode")(adsb_spec.horizontal_mode)
contract(D62 + "tcas_ra")(adsb_spec.tcas_ra)
contract(D62 + "emergency_status")(adsb_spec.emergency_status)
contract(A + "version")(adsb_spec.version)
contract(A + "nic_s")(adsb_spec.nic_s)
contract(A + "nic_a_c")(adsb_spec.nic_a_c)
contract(A + "nic_b")(adsb_spec.nic_b)


def region_horizontal_mode(msg, name):
    """finding candidate F16 (medium-confidence oracle): every TC29 subtype-0 frame whose bits
    26-27 differ from bits 38-39"""
    if name != "horizontal_mode":
        return False
    bits = F.hexbits(msg)
    me = F.me(bits)
    return F.tc_of(bits) == 29 and F.field(me, 6, 7) != 1 and F.field(me, 26, 27) != F.field(me, 38, 39)


@harness(("C13", "C14"), inputs={"msg": HexStr(28), "name": Choice(*N61)},
         functions=[D61 + n for n in N61], body_of=[D61 + n for n in N61])
def tc28_field_body(msg, name):
    assert outcome(getattr(B61, name), msg) == outcome(getattr(adsb_spec, name), msg), \
        "TC28 field == DO-260B bit range; RuntimeError for other type codes / ACAS RA subtype"


@harness(("C13", "C14"), inputs={"msg": HexStr(28), "name": Choice(*N62)},
         functions=[D62 + n for n in N62], body_of=[D62 + n for n in N62], regions=["region_horizontal_mode"])
def tc29_field_body(msg, name):
    assert outcome_close(outcome(getattr(B62, name), msg), outcome(getattr(adsb_spec, name), msg)), \
        "TC29 field == DO-260B bit range with N-1 offsets; None exactly for 'no data'; RuntimeError for the other subtype / type codes"


@harness(("C13", "C14"), inputs={"msg": HexStr(28)}, functions=[D62 + "target_angle"], body_of=[D62 + "target_angle"])
def target_angle_body(msg):
    bits = F.hexbits(msg)
    o = outcome(B62.target_angle, msg)
    s = outcome(adsb_spec.target_angle_value, msg)
    if s[0] == "raise":
        assert o == s, "target_angle rejects other type codes / subtype 1"
    else:
        assert o[0] == "ret" and o[1][0] == s[1][0] and o[1][2] == s[1][1], \
            "target_angle == (bits 28-36 | None, source from bits 26-27)"


@harness(("C13", "C14"), inputs={"msg": HexStr(28), "name": Choice(*NADSB)},
         functions=[A + n for n in NADSB], body_of=[A + n for n in NADSB])
def tc31_field_body(msg, name):
    assert outcome(getattr(ADSB, name), msg) == outcome(getattr(adsb_spec, name), msg), \
        "version / NIC supplement bits == DO-260B positions; RuntimeError for other type codes"


@harness(("C13", "C14"), inputs={"msg": HexStr(28)}, functions=[A + "nuc_p"], body_of=[A + "nuc_p"])
def nuc_p_body(msg):
    tc = F.tc_of(F.hexbits(msg))
    o = outcome(ADSB.nuc_p, msg)
    if tc is not None and ((5 <= tc and tc <= 18) or (20 <= tc and tc <= 22)):
        n = adsb_spec.NUCP_OF_TC[tc]
        assert o[0] == "ret" and o[1][0] == n, "NUCp category of the type code"
        assert o[1][1] == UNC.NUCp[n]["HPL"] and o[1][2] == UNC.NUCp[n]["RCu"], "HPL / RCu of that category"
        # the vertical containment bound exists only for GNSS-height position messages (DO-260 version 0: TC20 < 4 m,
        # TC21 < 15 m); barometric-altitude and surface type codes carry none
        assert o[1][3] == (4 if tc == 20 else (15 if tc == 21 else None)), \
            "RCv only for GNSS-height type codes 20 / 21 (4 m / 15 m), None otherwise"
    else:
        assert o == ("raise", "RuntimeError"), "nuc_p rejects non-position type codes (incl. TC19)"


@harness(("C13", "C14"), inputs={"msg": HexStr(28), "nics": Choice(0, 1)}, functions=[A + "nic_v1"],
         body_of=[A + "nic_v1"])
def nic_v1_body(msg, nics):
    tc = F.tc_of(F.hexbits(msg))
    o = outcome(ADSB.nic_v1, msg, nics)
    if tc is not None and ((5 <= tc and tc <= 18) or (20 <= tc and tc <= 22)):
        assert o[0] == "ret" and 0 <= o[1][0] and o[1][0] <= 11, "nic_v1 returns a NIC for every position TC x supplement"
        if tc != 7:
            assert o[1][0] == adsb_spec.nic_v1_category(tc, nics), "NIC (version 1) of the type code and NIC supplement"
    else:
        assert o == ("raise", "RuntimeError"), "nic_v1 rejects non-position type codes (incl. TC19)"


@harness(("C13", "C14"), inputs={"msg": HexStr(28), "nica": Choice(0, 1), "nicbc": Choice(0, 1)},
         functions=[A + "nic_v2"], body_of=[A + "nic_v2"])
def nic_v2_body(msg, nica, nicbc):
    tc = F.tc_of(F.hexbits(msg))
    o = outcome(ADSB.nic_v2, msg, nica, nicbc)
    if tc is not None and ((5 <= tc and tc <= 18) or (20 <= tc and tc <= 22)):
        assert o[0] == "ret", "nic_v2 returns for every position TC x supplements (None, None when undefined)"
        na = 0 if tc >= 20 else nica
        nb = 0 if tc >= 20 else nicbc
        want = adsb_spec.nic_v2_category(tc, na, nb)
        if want is not None and not (tc == 13 and na == 1 and nb == 0):
            # (combinations DO-260B does not define are not constrained)
            assert o[1][0] == want, "NIC (version 2) of the type code and supplements A, B/C"
    else:
        assert o == ("raise", "RuntimeError"), "nic_v2 rejects non-position type codes (incl. TC19)"


@harness(("C13", "C14"), inputs={"msg": HexStr(28)}, functions=[A + "nuc_v", A + "nac_v"],
         body_of=[A + "nuc_v", A + "nac_v"])
def nuc_v_nac_v_body(msg):
    s = outcome(adsb_spec.nuc_v_category, msg)
    o1 = outcome(ADSB.nuc_v, msg)
    o2 = outcome(ADSB.nac_v, msg)
    if s[0] == "raise":
        assert o1 == s and o2 == s, "nuc_v / nac_v reject type codes other than 19"
    else:
        assert o1[0] == "ret" and o1[1][0] == s[1] and o2[0] == "ret" and o2[1][0] == s[1], \
            "NUCv / NACv == ME bits 11-13, total on all 8 values"


@harness(("C13", "C14"), inputs={"msg": HexStr(28)}, functions=[A + "nac_p"], body_of=[A + "nac_p"])
def nac_p_body(msg):
    s = outcome(adsb_spec.nac_p_category, msg)
    o = outcome(ADSB.nac_p, msg)
    if s[0] == "raise":
        assert o == s, "nac_p rejects type codes other than 29/31"
    else:
        assert o[0] == "ret" and o[1][0] == s[1], "NACp == ME bits 40-43 (TC29) / 45-48 (TC31), total on all 16 values"


@harness(("C13", "C14"), inputs={"msg": HexStr(28), "ver": Choice(None, 0, 1, 2)}, functions=[A + "sil"],
         body_of=[A + "sil"])
def sil_body(msg, ver):
    s = outcome(adsb_spec.sil_category, msg)
    o = outcome(ADSB.sil, msg, ver)
    if s[0] == "raise":
        assert o == s, "sil rejects type codes other than 29/31"
    else:
        sup = adsb_spec.sil_supplement(msg)
        base = "unknown"
        if ver == 2:
            base = "hour" if sup == 0 else "sample"
        assert o[0] == "ret" and o[1][0] == UNC.SIL[s[1]]["PE_RCu"] and o[1][1] == UNC.SIL[s[1]]["PE_VPL"] \
            and o[1][2] == base, "SIL bounds of ME bits 45-46 (TC29) / 51-52 (TC31); supplement only for version 2"


@harness("C13", inputs={}, kind="table", functions=["pyModeS.decoder.uncertainty"])
def uncertainty_tables_monotone():
    def nonincreasing(table, col):
        prev = None
        for cat in sorted(table):
            v = table[cat][col]
            if v is None:
                continue
            assert prev is None or v <= prev, "higher category never looser: %s[%s]" % (col, cat)
            prev = v
    for col in ("HPL", "RCu", "RCv"):
        nonincreasing(UNC.NUCp, col)
    for col in ("HVE", "VVE"):
        nonincreasing(UNC.NUCv, col)
    for col in ("EPU", "VEPU"):
        nonincreasing(UNC.NACp, col)
    for col in ("HFOMr", "VFOMr"):
        nonincreasing(UNC.NACv, col)
    for col in ("PE_RCu", "PE_VPL"):
        nonincreasing(UNC.SIL, col)
    for tab, cols in ((UNC.NICv1, ("Rc", "VPL")), (UNC.NICv2, ("Rc",))):
        for col in cols:
            prev_max = None
            for cat in sorted(tab):
                vals = [e[col] for e in tab[cat].values() if e[col] is not None]
                if not vals:
                    continue
                assert prev_max is None or max(vals) <= prev_max, "higher NIC never looser: %s[%s]" % (col, cat)
                prev_max = min(vals) if prev_max is None else min(vals)
    # totality of the category tables on the whole field range
    assert set(UNC.NUCp) == set(range(10)) and set(UNC.NACp) >= set(range(12)) and set(UNC.SIL) == set(range(4))
    for tc in adsb_spec.POSITION_TCS:
        assert tc in UNC.TC_NUCp_lookup and tc in UNC.TC_NICv1_lookup and tc in UNC.TC_NICv2_lookup, "TC %d has an entry" % tc
