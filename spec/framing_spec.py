"""Reference framers (whole-stream semantics) for the three TCP feed formats - property C16.

  AVR raw   '*' <hex digits> ';'          a frame is complete when its ';' has arrived
  Beast     0x1A <type> <payload...>      0x1A inside a frame is sent doubled; a frame is complete when
                                          the 0x1A that starts the next frame has arrived (and that 0x1A
                                          is known not to be the first half of an escape pair, i.e. the
                                          byte after it has arrived too)
  Skysense  '$' + 14 payload + 6 time + 3 level bytes; a frame at offset 0 is accepted when byte 24 is '$'

parse_X(stream) -> list of message hex strings exactly as the client should hand them on.
"""


def parse_raw(stream):
    out = []
    cur = None
    for b in stream:
        if b == 42:            # '*'
            cur = ""
        elif b == 59:          # ';'
            if cur is not None:
                out.append(cur)
            cur = None
        elif cur is not None and (48 <= b <= 57 or 65 <= b <= 70 or 97 <= b <= 102):
            cur = cur + chr(b)
    return out


def beast_frames(stream):
    """un-escaped frames (lists of bytes, without the leading 0x1A) that are complete in `stream`"""
    frames = []
    cur = None
    i = 0
    n = len(stream)
    while i < n:
        b = stream[i]
        if b == 0x1A:
            if i + 1 >= n:
                break                      # cannot tell yet: delimiter or first half of an escape
            if stream[i + 1] == 0x1A:
                if cur is not None:
                    cur.append(0x1A)
                i += 2
                continue
            if cur is not None and len(cur) > 0:
                frames.append(cur)
            cur = []
            i += 1
            continue
        if cur is not None:
            cur.append(b)
        i += 1
    return frames


def beast_message(frame):
    """hex string the client emits for one un-escaped Beast frame, or None if it is skipped"""
    t = frame[0]
    if t == 0x32:
        body = frame[8:15]
    elif t == 0x33:
        body = frame[8:22]
    else:
        return None
    msg = "".join("%02X" % x for x in body)
    if len(msg) not in (14, 28):
        return None
    df = min(int(msg[:2], 16) >> 3, 24)
    if df in (0, 4, 5, 11) and len(msg) != 14:
        return None
    if df in (16, 17, 18, 19, 20, 21, 24) and len(msg) != 28:
        return None
    return msg


def parse_beast(stream):
    out = []
    for f in beast_frames(stream):
        m = beast_message(f)
        if m is not None:
            out.append(m)
    return out


def parse_skysense(stream):
    out = []
    buf = list(stream)
    while len(buf) > 24:
        if buf[0] == 0x24 and buf[24] == 0x24:
            payload = buf[1:15] if buf[1] >> 7 else buf[1:8]
            out.append("".join("%02X" % x for x in payload))
            buf = buf[24:]
        else:
            buf = buf[1:]
    return out


def beast_encode(msgtype, ts6, sig, payload):
    """serialise one Beast frame (with escaping)"""
    body = [msgtype] + list(ts6) + [sig] + list(payload)
    out = [0x1A]
    for i, b in enumerate(body):
        out.append(b)
        if b == 0x1A and i > 0:
            out.append(0x1A)
    return out


# ---------------------------------------------------------------------------------------------------------
# AVR raw framer as a fold over bytes: state (cur, stop); raw_step is the per-byte transition the client must
# implement, for EVERY byte value (also garbage between frames).  On a stream of well-formed "*<hex>;" frames
# the fold from the initial state ("", False) emits exactly parse_raw(stream) (lemma raw_fold_is_parse below,
# checked natively); on malformed input (a ';' that no '*' precedes) the client repeats the last text, which
# the statement of C16 does not constrain.
def raw_step(cur, stop, b):
    """-> (emitted or None, cur', stop')"""
    emitted = None
    if b == 59:                      # ';'
        stop = True
        emitted = cur
    if b == 42:                      # '*'
        stop = False
        cur = ""
    if (not stop) and ((48 <= b and b <= 57) or (65 <= b and b <= 70) or (97 <= b and b <= 102)):
        cur = cur + chr(b)
    return emitted, cur, stop


def raw_fold(stream, cur="", stop=False):
    out = []
    for b in stream:
        e, cur, stop = raw_step(cur, stop, b)
        if e is not None:
            out.append(e)
    return out, cur, stop
