"""Comm-B register layouts, ICAO Doc 9871 (Technical Provisions for Mode S Services and
Extended Squitter), Appendix A tables A-2-16 (1,0) A-2-23 (1,7) A-2-32 (2,0) A-2-64 (4,0)
A-2-68 (4,4) A-2-69 (4,5) A-2-80 (5,0) A-2-83 (5,3) A-2-96 (6,0).
MB bit numbers are 1-based within the 56-bit MB field (frame bits 33-88).

FIELDS[name] = (status bit | None, sign bit | None, msb, lsb, scale numerator,
                scale denominator, offset, wrap to [0,360) ?)
value = two's-complement (sign, msb..lsb) or unsigned (msb..lsb) * num/den + offset,
None exactly when the status bit is clear."""
from vc.api import require
from spec import F

FIELDS = {
    # BDS 4,0  selected vertical intention
    "selalt40mcp": (1, None, 2, 13, 16, 1, 0, False),
    "selalt40fms": (14, None, 15, 26, 16, 1, 0, False),
    "p40baro": (27, None, 28, 39, 1, 10, 800, False),
    # BDS 5,0  track and turn report
    "roll50": (1, 2, 3, 11, 45, 256, 0, False),
    "trk50": (12, 13, 14, 23, 90, 512, 0, True),
    "gs50": (24, None, 25, 34, 2, 1, 0, False),
    "rtrk50": (35, 36, 37, 45, 8, 256, 0, False),
    "tas50": (46, None, 47, 56, 2, 1, 0, False),
    # BDS 6,0  heading and speed report
    "hdg60": (1, 2, 3, 12, 90, 512, 0, True),
    "ias60": (13, None, 14, 23, 1, 1, 0, False),
    "mach60": (24, None, 25, 34, 4, 1000, 0, False),
    "vr60baro": (35, 36, 37, 45, 32, 1, 0, False),
    "vr60ins": (46, 47, 48, 56, 32, 1, 0, False),
    # BDS 5,3  air-referenced state vector
    "hdg53": (1, 2, 3, 12, 90, 512, 0, True),
    "ias53": (13, None, 14, 23, 1, 1, 0, False),
    "mach53": (24, None, 25, 33, 8, 1000, 0, False),
    "tas53": (34, None, 35, 46, 1, 2, 0, False),
    "vr53": (47, 48, 49, 56, 64, 1, 0, False),
    # BDS 4,4  meteorological routine air report
    "p44": (35, None, 36, 46, 1, 1, 0, False),
    "turb44": (47, None, 48, 49, 1, 1, 0, False),
    "hum44": (50, None, 51, 56, 100, 64, 0, False),
    # BDS 4,5  meteorological hazard report
    "turb45": (1, None, 2, 3, 1, 1, 0, False),
    "ws45": (4, None, 5, 6, 1, 1, 0, False),
    "mb45": (7, None, 8, 9, 1, 1, 0, False),
    "ic45": (10, None, 11, 12, 1, 1, 0, False),
    "wv45": (13, None, 14, 15, 1, 1, 0, False),
    "temp45": (None, 17, 18, 26, 1, 4, 0, False),        # reported unconditionally
    "p45": (27, None, 28, 38, 1, 1, 0, False),
    "rh45": (39, None, 40, 51, 16, 1, 0, False),
}

REGISTER_OF = {
    "selalt40mcp": "40", "selalt40fms": "40", "p40baro": "40",
    "roll50": "50", "trk50": "50", "gs50": "50", "rtrk50": "50", "tas50": "50",
    "hdg60": "60", "ias60": "60", "mach60": "60", "vr60baro": "60", "vr60ins": "60",
    "hdg53": "53", "ias53": "53", "mach53": "53", "tas53": "53", "vr53": "53",
    "p44": "44", "turb44": "44", "hum44": "44", "wind44": "44", "temp44": "44",
    "turb45": "45", "ws45": "45", "mb45": "45", "ic45": "45", "wv45": "45", "temp45": "45", "p45": "45",
    "rh45": "45", "ovc10": "10", "cap17": "17", "cs20": "20",
}

GICB_REGISTERS = ["05", "06", "07", "08", "09", "0A", "20", "21", "40", "41", "42", "43", "44", "45", "48",
                  "50", "51", "52", "53", "54", "55", "56", "5F", "60"]


def mb_of(msg):
    """MB field of a 112-bit Comm-B reply; a 56-bit frame has no MB field"""
    require(len(msg) == 14 or len(msg) == 28, "56- or 112-bit frame")
    if len(msg) == 14:
        raise ValueError("no MB field in a short frame")
    return F.me(F.hexbits(msg))


def raw_value(mb, sign, msb, lsb):
    v = F.field(mb, msb, lsb)
    if sign is not None:
        if F.bit(mb, sign) == 1:
            v = v - 2 ** (lsb - msb + 1)
    return v


def scaled(mb, desc):
    status, sign, msb, lsb, num, den, off, wrap = desc
    v = raw_value(mb, sign, msb, lsb)
    if den == 1:
        x = v * num + off
    else:
        x = v * num / den + off
    if wrap:
        if x < 0:
            x = x + 360
    if status is None:
        return x
    return None if F.bit(mb, status) == 0 else x


def field_decoder(name, msg):
    """value of the named single-valued field decoder"""
    return scaled(mb_of(msg), FIELDS[name])


def wind44(msg):
    mb = mb_of(msg)
    spd = F.field(mb, 6, 14)
    dirn = F.field(mb, 15, 23) * 180 / 256
    if F.bit(mb, 5) == 0:
        return None, None
    return spd, dirn


def temp44(msg):
    """static air temperature; the decoder documents two readings of the LSB (0.25 / 0.125)"""
    mb = mb_of(msg)
    v = raw_value(mb, 24, 25, 34)
    return v * 0.25, v * 0.125


def ovc10(msg):
    return F.bit(mb_of(msg), 15)


def cap17(msg):
    mb = mb_of(msg)
    out = []
    for i in range(24):
        if F.bit(mb, i + 1) == 1:
            out.append("BDS" + GICB_REGISTERS[i])
    return out
