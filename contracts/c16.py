"""C16 - stream framing is independent of how the byte stream is chunked."""
from vc.api import (harness, contract, repo, outcome, assume, new_object, property_level, BinStr, HexStr, IntRange,
                    Choice, Bool)
from spec import framing_spec
from spec import F

property_level("C16", "other", "the chunk-independence of the three framers is a whole-history property over unbounded "
               "byte streams; it is covered by bounded native enumeration (labelled bounded), only the forwarding clause "
               "of NetSource.handle_messages is discharged deductively")

TCP = repo("pyModeS.extra.tcpclient")
SRC = repo("pyModeS.streamer.source")
T = "pyModeS.extra.tcpclient.TcpClient."


def feed(datatype, stream, cuts):
    """run the real client on `stream` delivered in the pieces given by `cuts`; -> list of messages"""
    c = new_object(TCP.TcpClient, buffer=[], datatype=datatype, current_msg="", msg_stop=False)
    out = []
    pos = 0
    for cut in list(cuts) + [len(stream)]:
        piece = stream[pos:cut]
        pos = cut
        c.buffer.extend(piece)
        if datatype == "beast":
            r = c.read_beast_buffer()
        elif datatype == "raw":
            r = c.read_raw_buffer()
        else:
            r = c.read_skysense_buffer()
        if r:
            out.extend(m[0] for m in r)
    return out


def raw_stream(rng):
    out = []
    for _ in range(rng.randint(1, 4)):
        n = rng.choice([14, 28])
        out += [42] + [ord(c) for c in "".join(rng.choice("0123456789abcdefABCDEF") for _ in range(n))] + [59]
        out += rng.choice([[], [10], [13, 10]])
    return out


def sample_raw(rng, fixed):
    s = raw_stream(rng)
    k = rng.randint(0, 3)
    cuts = sorted(rng.randint(0, len(s)) for _ in range(k))
    return {"stream": s, "cuts": cuts}


class _ListDomain:
    """placeholder domain: values come from the sampler"""
    def sample(self, rng):
        return []


from vc.api import Domain


class Stream(Domain):
    def sample(self, rng):
        return []


@harness("C16", inputs={"stream": Stream(), "cuts": Stream()}, kind="bounded", sampler=sample_raw,
         functions=[T + "read_raw_buffer"],
         note="AVR framing: random streams of 1-4 frames, every segmentation into up to 4 pieces (sampled)")
def raw_chunk_independent(stream, cuts):
    assert feed("raw", stream, cuts) == framing_spec.parse_raw(stream), \
        "raw: messages over all reads == frames of the whole stream, wherever the cuts fall"


def sample_raw_exhaustive_cuts(rng, fixed):
    return {"stream": raw_stream(rng)}


@harness("C16", inputs={"stream": Stream()}, kind="bounded", sampler=sample_raw_exhaustive_cuts,
         functions=[T + "read_raw_buffer"], note="every single and double cut position of the sampled stream")
def raw_all_single_and_double_cuts(stream):
    want = framing_spec.parse_raw(stream)
    n = len(stream)
    for a in range(n + 1):
        assert feed("raw", stream, [a]) == want, "raw: single cut at %d" % a
    step = 1 if n <= 40 else 3
    for a in range(0, n + 1, step):
        for b in range(a, n + 1, step):
            assert feed("raw", stream, [a, b]) == want, "raw: double cut at %d,%d" % (a, b)


def beast_stream(rng, with_escape):
    out = []
    for _ in range(rng.randint(1, 3)):
        t = rng.choice([0x31, 0x32, 0x33, 0x33])
        n = {0x31: 2, 0x32: 7, 0x33: 14}[t]

        def byte():
            if with_escape and rng.random() < 0.15:
                return 0x1A
            return rng.choice([0x00, 0x8D, 0x5D, 0xA0, 0x20, 0xFF, 0x33, rng.randint(0, 255)])
        ts = [byte() for _ in range(6)]
        sig = byte()
        payload = [byte() for _ in range(n)]
        if t != 0x31:
            payload[0] = rng.choice([0x8D, 0x5D, 0xA0, 0x20, 0x28, 0x90, 0xA8]) if t == 0x33 else rng.choice([0x5D, 0x20, 0x28, 0x02])
        out += framing_spec.beast_encode(t, ts, sig, payload)
    out += [0x1A, 0x31]         # start of a following frame, so that the last one is complete
    return out


def sample_beast(rng, fixed):
    s = beast_stream(rng, fixed.get("escapes", True))
    k = rng.randint(0, 3)
    return {"stream": s, "cuts": sorted(rng.randint(0, len(s)) for _ in range(k))}


def region_beast_cut_at_escape_byte(stream, cuts, escapes):
    """F11: some piece ends right after a 0x1A byte (frame delimiter or half of an escape pair), or a frame
    containing an escaped 0x1A is split across reads"""
    ends = [c for c in cuts if 0 < c <= len(stream) and stream[c - 1] == 0x1A]
    if ends:
        return True
    if len(stream) > 0 and stream[-1] == 0x1A:
        return True
    # escaped 0x1A carried over in the remainder
    frames_start = [i for i in range(len(stream)) if stream[i] == 0x1A and (i == 0 or stream[i - 1] != 0x1A)
                    and (i + 1 < len(stream) and stream[i + 1] != 0x1A)]
    for c in cuts:
        prev = [i for i in frames_start if i < c]
        if prev:
            seg = stream[prev[-1] + 1:c]
            if 0x1A in seg:
                return True
    return False


@harness("C16", inputs={"stream": Stream(), "cuts": Stream(), "escapes": Choice(True, False)}, kind="bounded",
         sampler=sample_beast, functions=[T + "read_beast_buffer"], regions=["region_beast_cut_at_escape_byte"],
         note="Beast framing: random streams of 1-3 frames (0x1A anywhere in timestamp, level or message when "
              "escapes=True), up to 4 pieces")
def beast_chunk_independent(stream, cuts, escapes):
    assert feed("beast", stream, cuts) == framing_spec.parse_beast(stream), \
        "beast: messages over all reads == frames completely received, wherever the cuts fall"


def sky_stream(rng):
    out = []
    for _ in range(rng.randint(1, 3)):
        long_ = rng.random() < 0.6
        p0 = rng.choice([0x8D, 0xA0, 0x90]) if long_ else rng.choice([0x5D, 0x20, 0x28])
        payload = [p0] + [rng.choice([0x24, 0x00, rng.randint(0, 255)]) for _ in range(13)]
        out += [0x24] + payload + [rng.randint(0, 255) for _ in range(9)]
        if rng.random() < 0.2:
            out += [rng.randint(0, 255) for _ in range(rng.randint(1, 3))]   # line noise between frames
    out += [0x24]
    return out


def sample_sky(rng, fixed):
    s = sky_stream(rng)
    k = rng.randint(0, 3)
    return {"stream": s, "cuts": sorted(rng.randint(0, len(s)) for _ in range(k))}


@harness("C16", inputs={"stream": Stream(), "cuts": Stream()}, kind="bounded", sampler=sample_sky,
         functions=[T + "read_skysense_buffer"], note="Skysense framing: random streams, up to 4 pieces")
def skysense_chunk_independent(stream, cuts):
    assert feed("skysense", stream, cuts) == framing_spec.parse_skysense(stream), \
        "skysense: messages over all reads == frames of the whole stream, wherever the cuts fall"


class FakePipe:
    def __init__(self):
        self.sent = []

    def send(self, obj):
        self.sent.append(obj)


class FakeFlag:
    def __init__(self):
        self.value = False


def expected_forwarding(batches):
    """reference: every long DF17/18 and DF20/21 message, once, in order, split into the batches the
    source sends (it sends when at least two ADS-B messages are waiting)"""
    sent = []
    adsb_m, adsb_t, commb_m, commb_t = [], [], [], []
    for batch in batches:
        for msg, t in batch:
            if len(msg) < 28:
                continue
            d = F.df_of(F.hexbits(msg))
            if d == 17 or d == 18:
                adsb_m.append(msg)
                adsb_t.append(t)
            elif d == 20 or d == 21:
                commb_m.append(msg)
                commb_t.append(t)
        if len(adsb_m) > 1:
            sent.append({"adsb_ts": adsb_t, "adsb_msg": adsb_m, "commb_ts": commb_t, "commb_msg": commb_m})
            adsb_m, adsb_t, commb_m, commb_t = [], [], [], []
    return sent, adsb_m, commb_m


@harness("C16", inputs={"m1": HexStr((14, 28)), "m2": HexStr((14, 28)), "m3": HexStr((14, 28)), "m4": HexStr(28),
                         "split": Choice(0, 1, 2, 3, 4)},
         functions=["pyModeS.streamer.source.NetSource.handle_messages", "pyModeS.streamer.source.NetSource.reset_local_buffer"],
         body_of=["pyModeS.streamer.source.NetSource.handle_messages", "pyModeS.streamer.source.NetSource.reset_local_buffer"])
def netsource_forwards_each_message_once(m1, m2, m3, m4, split):
    # four messages of arbitrary content (three of either length), handed over in two calls split anywhere
    src = new_object(SRC.NetSource, stop_flag=FakeFlag(), raw_pipe_in=FakePipe())
    src.reset_local_buffer()
    msgs = [[m1, 1], [m2, 2], [m3, 3], [m4, 4]]
    b1 = msgs[:split]
    b2 = msgs[split:]
    src.handle_messages(b1)
    src.handle_messages(b2)
    want_sent, want_adsb, want_commb = expected_forwarding([b1, b2])
    assert src.raw_pipe_in.sent == want_sent, "objects sent on the pipe carry every long DF17/18 and DF20/21 message once, in order"
    assert src.local_buffer_adsb_msg == want_adsb and src.local_buffer_commb_msg == want_commb, \
        "messages not yet sent are still waiting in the local buffers (none lost)"
