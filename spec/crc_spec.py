"""Mode S CRC-24 (Annex 10 Vol IV 3.1.2.3.3): textbook bit-serial polynomial long
division of the frame polynomial by G(x) = x^24 + x^23 + ... = 0x1FFF409."""

GENERATOR = 0x1FFF409
GEN_BITS = [(GENERATOR >> (24 - j)) & 1 for j in range(25)]   # x^24 ... x^0


def REM(binstr):
    """remainder (24-bit int) of the polynomial whose coefficients are the bits of
    `binstr` (first character = highest power) modulo G"""
    n = len(binstr)
    v = [int(c) for c in binstr]
    for i in range(n - 24):
        b = v[i]
        for j in range(25):
            if GEN_BITS[j]:
                v[i + j] = v[i + j] ^ b
    r = 0
    for k in range(n - 24, n):
        r = (r << 1) | v[k]
    return r


def zero_parity(binstr):
    """the frame with its last 24 bits cleared"""
    return binstr[:len(binstr) - 24] + "0" * 24
