"""C17 - live aircraft table: robust, correct positions, bounded staleness."""
from vc.api import (harness, contract, repo, outcome, assume, new_object, property_level, abstract_int, abstract_real, opaque,
                    bits_of, hex_of_bits, BinStr, HexStr, IntRange, RealRange, Choice, Domain, NATIVE_ABSTRACT,
                    NATIVE_OPAQUE)
from spec import F
from spec import crc_spec

DEC = repo("pyModeS.streamer.decode")
ADSB = repo("pyModeS.decoder.adsb")
D = "pyModeS.streamer.decode.Decode."

property_level("C17", "other", "robustness, staleness, Comm-B gating, canonical keys and the plumbing of stored positions are "
               "discharged deductively by induction over the history (record invariant: base + one-call step from an "
               "arbitrary record, for ADS-B messages of every type code and Comm-B replies of every inference class); "
               "the kinematic side conditions (a 600-kt trajectory keeps the preconditions of C03 / C04) are a table "
               "obligation; the induction principle itself is not machine-checked, surface pairs faster than 252 kt are "
               "outside C05's precondition, and the 0.001-degree accuracy clause end to end is only simulated (bounded)")

ADDR = {"A": "101010111100110111101111", "B": "000000010010001101000101"}     # ABCDEF, 012345


def adsb_frame(addr, me, parity, case):
    return hex_of_bits("10001" + "101" + ADDR[addr] + me + parity, case)


def commb_frame(addr, df21, head, mb, case):
    data = ("10101" if df21 else "10100") + head + mb
    ap = crc_spec.REM(data + "0" * 24) ^ int(ADDR[addr], 2)
    return hex_of_bits(data + bits_of(ap, 24), case)


def position_abstract(msg0, msg1, t0, t1, lat_ref=None, lon_ref=None):
    """what process_raw needs to know about adsb.position (proved in C03 / C05): it raises RuntimeError,
    returns None, or returns a (lat, lon) pair of real numbers"""
    k = abstract_int("position_outcome", 0, 2, msg0, msg1, t0, t1, lat_ref, lon_ref)
    if k == 0:
        raise RuntimeError("inconsistent pair")
    if k == 1:
        return None
    return (abstract_real("position.lat", -91, 91, msg0, msg1, t0, t1, lat_ref, lon_ref),
            abstract_real("position.lon", -361, 721, msg0, msg1, t0, t1, lat_ref, lon_ref))


def position_with_ref_abstract(msg, lat_ref, lon_ref):
    """adsb.position_with_ref on a TC5-18 / 20-22 frame with numeric references returns a pair of real numbers
    (C04: within one quantisation step of a position half a zone from the reference); other type codes raise
    RuntimeError (C04 / C14 dispatch obligation) - process_raw only calls it for TC5-18"""
    tc = F.tc_of(F.hexbits(msg))
    if tc is None or not (5 <= tc and tc <= 22 and tc != 19):
        raise RuntimeError("not a position message")
    if lat_ref is None or lon_ref is None:
        raise TypeError("reference position is None")
    return (abstract_real("position_with_ref.lat", -1000, 1000, msg, lat_ref, lon_ref),
            abstract_real("position_with_ref.lon", -1000, 1000, msg, lat_ref, lon_ref))


def _n_pos(msg0, msg1, t0, t1, lat_ref=None, lon_ref=None):
    try:
        r = ADSB.position(msg0, msg1, t0, t1, lat_ref, lon_ref)
    except RuntimeError:
        return 0
    return 1 if r is None else 2


NATIVE_ABSTRACT["position_outcome"] = _n_pos
NATIVE_ABSTRACT["position.lat"] = lambda m0, m1, t0, t1, a=None, b=None: ADSB.position(m0, m1, t0, t1, a, b)[0]
NATIVE_ABSTRACT["position.lon"] = lambda m0, m1, t0, t1, a=None, b=None: ADSB.position(m0, m1, t0, t1, a, b)[1]
NATIVE_ABSTRACT["position_with_ref.lat"] = lambda m, a, b: ADSB.position_with_ref(m, a, b)[0]
NATIVE_ABSTRACT["position_with_ref.lon"] = lambda m, a, b: ADSB.position_with_ref(m, a, b)[1]

from contracts.c14 import infer_abstract, callsign_opaque

OVR = {"pyModeS.decoder.adsb.position": position_abstract,
       "pyModeS.decoder.adsb.position_with_ref": position_with_ref_abstract,
       "pyModeS.decoder.bds.infer": infer_abstract,              # exact contract: C12
       "pyModeS.decoder.bds.bds08.callsign": callsign_opaque}    # exact contract: C10


def new_decoder(lat0=None, lon0=None):
    return new_object(DEC.Decode, acs={}, lat0=lat0, lon0=lon0, t=0, cache_timeout=60, dumpto=None)


TCQ = [2, 6, 11, 19, 31]       # (the induction step below covers every type code from every record state)

# MB fields (hex) that bds.infer classifies as the given class (None = random payload); classes 7 / 8
# (BDS44 / BDS45) are never reported with mrar=False: the abstract contract allows them, natively they
# cannot occur (native_optional)
MB_OF_CLASS = {1: ["00000000000000"], 2: ["10000000000000"], 3: ["02000000000000"], 4: ["20820820820820"],
               5: ["30000000000000"], 6: ["85E42F31300000"], 9: ["81951536E024D4", "FFB4351B6F3FFC"],
               10: ["8F39F91A7E27C4", "A00004128F39F9"]}


def sample_commb(rng, fixed):
    cls = fixed.get("cls", 0)
    mbs = MB_OF_CLASS.get(cls)
    if mbs:
        return {"mb": format(int(rng.choice(mbs), 16), "056b")}
    return {}


TCT = [0, 1, 2, 4, 5, 6, 8, 9, 11, 18, 19, 20, 22, 23, 28, 29, 31]


@harness("C17", inputs={"tc1": Choice(*TCT, quick=TCQ), "tc2": Choice(*TCT, quick=TCQ),
                         "r1": BinStr(51), "r2": BinStr(51), "p1": BinStr(24), "p2": BinStr(24), "case1": BinStr(28),
                         "case2": BinStr(28), "t1": RealRange(0, 100000), "d12": RealRange(0, 400),
                         "dnow": RealRange(0, 400), "a2": Choice("A", "B")},
         functions=[D + "process_raw", D + "get_aircraft"], body_of=[D + "process_raw", D + "get_aircraft"],
         overrides=OVR, idealised=True, timeout={"quick": 120000, "thorough": 600000})
def two_adsb_messages(tc1, tc2, r1, r2, p1, p2, case1, case2, t1, d12, dnow, a2):
    # two DF17 messages of every pair of type codes and arbitrary remaining content (same or different
    # aircraft), non-decreasing timestamps
    dec = new_decoder()
    m1 = adsb_frame("A", bits_of(tc1, 5) + r1, p1, case1)
    m2 = adsb_frame(a2, bits_of(tc2, 5) + r2, p2, case2)
    t2 = t1 + d12
    tnow = t2 + dnow
    o = outcome(dec.process_raw, [t1, t2], [m1, m2], [], [], tnow)
    assert o == ("ret", None), "process_raw never raises on DF17 messages of arbitrary content"
    acs = dec.get_aircraft()
    for k in acs:
        assert k == "ABCDEF" or k == "012345", "table keys are canonical upper-case addresses, whatever the input case"
    last_a = t2 if a2 == "A" else t1
    if tnow - last_a <= 59:
        assert "ABCDEF" in acs, "an aircraft heard within the last 59 s is listed"
    if tnow - last_a > 61:
        assert "ABCDEF" not in acs, "an aircraft silent for more than 61 s is absent"
    if a2 == "B":
        if dnow <= 59:
            assert "012345" in acs, "second aircraft listed when heard within 59 s"
        if dnow > 61:
            assert "012345" not in acs, "second aircraft absent after 61 s of silence"


@harness("C17", inputs={"tc1": Choice(*range(32), quick=[2, 11, 31]), "r1": BinStr(51), "p1": BinStr(24),
                         "case1": BinStr(28), "head": BinStr(27), "mb": BinStr(56), "case2": BinStr(28),
                         "df21": Choice(False, True), "cls": Choice(*range(12)), "t1": RealRange(0, 100000),
                         "d12": RealRange(0, 100), "known": Choice(True, False)},
         functions=[D + "process_raw"], body_of=[D + "process_raw", D + "get_aircraft"], overrides=OVR, idealised=True,
         timeout={"quick": 120000, "thorough": 600000}, sampler=sample_commb, native_optional=True)
def commb_attaches_only_to_known_aircraft(tc1, r1, p1, case1, head, mb, case2, df21, cls, t1, d12, known):
    dec = new_decoder()
    m1 = adsb_frame("A", bits_of(tc1, 5) + r1, p1, case1)
    cb = commb_frame("A" if known else "B", df21, head, mb, case2)
    # case split on what bds.infer reports for the reply (the 12 classes of its abstract contract)
    assume(abstract_int("infer_class", 0, 11, cb, False) == cls)
    t2 = t1 + d12
    o = outcome(dec.process_raw, [t1], [m1], [t2], [cb], t2)
    assert o == ("ret", None), "process_raw never raises on a Comm-B reply of arbitrary content"
    acs = dec.get_aircraft()
    assert "012345" not in acs, "a Comm-B reply never creates an aircraft record"
    if known and d12 <= 59:
        assert "ABCDEF" in acs and acs["ABCDEF"]["t"] == t2, \
            "a Comm-B reply of an aircraft already seen in ADS-B updates that record (in any letter case)"
    if not known and d12 <= 59:
        assert acs["ABCDEF"]["t"] == t1, "a Comm-B reply of an unknown address changes nothing"


class Seed(Domain):
    def sample(self, rng):
        return rng.randint(0, 10 ** 9)


def _airborne_msg(lat, lon, i, tc=11):
    from spec import cpr_spec
    yz, xz, rlat, rlon = cpr_spec.encode(lat, lon, i, False)
    me = bits_of(tc, 5) + "00" + "0" + "110000111000" + "0" + bits_of(i, 1) + bits_of(int(yz), 17) + bits_of(int(xz), 17)
    return adsb_frame("A", me, "0" * 24, "1" * 28)


@harness("C17", inputs={"seed": Seed(), "scenario": Choice("random", "nl_transition", "equator", "antimeridian", "gaps")},
         kind="bounded", bound={"quick": 4000, "thorough": 40000}, functions=[D + "process_raw"],
         note="accuracy clause: simulated trajectories at up to 600 kt through NL transitions, the equator and the "
              "antimeridian, with message gaps below 10 s, 10-180 s and above 180 s; after every update the stored "
              "position is compared with the true position at the message that caused it (|lat| <= 87)")
def trajectory_positions_accurate(seed, scenario):
    import math
    import random
    from spec.nl_table import TRANSITION
    rng = random.Random(seed)
    if scenario == "nl_transition":
        k = rng.randint(3, 59)
        lat = float(TRANSITION[k]) * rng.choice([-1, 1]) + rng.uniform(-0.02, 0.02)
        lon = rng.uniform(-180, 180)
    elif scenario == "equator":
        lat, lon = rng.uniform(-0.02, 0.02), rng.uniform(-180, 180)
    elif scenario == "antimeridian":
        lat, lon = rng.uniform(-80, 80), rng.choice([-180, 180]) + rng.uniform(-0.02, 0.02)
    else:
        lat, lon = rng.uniform(-86, 86), rng.uniform(-180, 180)
    kt = rng.uniform(0, 600)
    hdg = rng.uniform(0, 2 * math.pi)
    dlat = kt / 3600.0 / 60.0 * math.cos(hdg)                  # degrees per second
    dlon = kt / 3600.0 / 60.0 * math.sin(hdg) / max(math.cos(math.radians(lat)), 0.05)
    dec = new_decoder()
    t = 1000.0
    i = 0
    for step in range(60):
        gap = rng.choice([0.5, 0.5, 0.5, 1.0, 4.0]) if scenario != "gaps" else rng.choice([0.5, 0.5, 9.0, 30.0, 150.0, 200.0])
        t += gap
        lat += dlat * gap
        lon += dlon * gap
        if abs(lat) > 86.9:
            break
        lon_n = (lon + 180) % 360 - 180
        i = 1 - i if rng.random() < 0.8 else i
        msg = _airborne_msg(lat, lon_n, i)
        dec.process_raw([t], [msg], [], [], t)
        rec = dec.get_aircraft().get("ABCDEF")
        assert rec is not None, "aircraft listed after its own message"
        if rec.get("tpos") == t:
            assert abs(rec["lat"] - lat) <= 0.001, "stored latitude within 0.001 degree of the true position"
            dl = (rec["lon"] - lon_n + 180) % 360 - 180
            assert abs(dl) <= 0.001 * max(1.0, 1 / max(math.cos(math.radians(lat)), 0.05)) * 3, \
                "stored longitude within a few quantisation steps of the true position"


# ------------------------------------------------------------------------------------------------------------
# Induction over histories: one call from an ARBITRARY table entry satisfying the invariant INV.
#   base:  a record created by process_raw for an unknown address satisfies INV (first clause of the step
#          harness with known=False);
#   step:  from any record satisfying INV, one more message of arbitrary content (ADS-B of every type code, or a
#          Comm-B reply of every inference class) neither raises nor leaves INV, and the staleness rule holds for
#          the sender and for an untouched bystander.
# INV is an over-approximation of the reachable records: only the fields process_raw ever READS are constrained.
BASE_KEYS = ["live", "call", "lat", "lon", "alt", "gs", "trk", "roc", "tas", "roll", "rtrk", "ias", "mach", "hdg",
             "ver", "HPL", "RCu", "RCv", "HVE", "VVE", "Rc", "VPL", "EPU", "VEPU", "HFOMr", "VFOMr", "PE_RCu",
             "PE_VPL", "hum44", "p44", "temp44", "turb44", "wind44"]


def record(icao, t_last, tc_last):
    ac = {}
    for k in BASE_KEYS:
        ac[k] = None
    ac["tc"] = tc_last
    ac["icao"] = icao
    ac["t"] = t_last
    ac["live"] = int(t_last)
    return ac


def inv(ac):
    """the record invariant (what process_raw relies on when it reads a record)"""
    ok = ac["icao"] == "ABCDEF" or ac["icao"] == "012345"
    ok = ok and ac["live"] == int(ac["t"])
    if "tpos" in ac:
        ok = ok and ac["lat"] is not None and ac["lon"] is not None and ac["tpos"] <= ac["t"]
    ok = ok and (("t0" in ac) == (0 in ac)) and (("t1" in ac) == (1 in ac))
    if "t0" in ac:
        ok = ok and ac["t0"] <= ac["t"] and len(ac[0]) == 28
    if "t1" in ac:
        ok = ok and ac["t1"] <= ac["t"] and len(ac[1]) == 28
    v = ac["ver"]
    ok = ok and (v is None or (0 <= v and v <= 7))
    if "nic_s" in ac:
        ok = ok and 0 <= ac["nic_s"] and ac["nic_s"] <= 1
    if "nic_a" in ac:
        ok = ok and 0 <= ac["nic_a"] and ac["nic_a"] <= 1
    if "nic_bc" in ac:
        ok = ok and 0 <= ac["nic_bc"] and ac["nic_bc"] <= 1
    return ok


def state_record(t_last, tc_last, has_tpos, pair, ver, nic, lat, lon, dtpos, dt0, dt1, m0, m1, nic_s, nic_a, nic_bc):
    """a record in an arbitrary state allowed by INV, selected by the case parameters"""
    ac = record("ABCDEF", t_last, tc_last)
    if has_tpos:
        ac["tpos"] = t_last - dtpos
        ac["lat"] = lat
        ac["lon"] = lon
    if pair == 0 or pair == 2:
        ac[0] = m0
        ac["t0"] = t_last - dt0
    if pair == 1 or pair == 2:
        ac[1] = m1
        ac["t1"] = t_last - dt1
    ac["ver"] = ver
    if nic == 1 or nic == 3:
        ac["nic_s"] = nic_s
    if nic == 2 or nic == 3:
        ac["nic_a"] = nic_a
        ac["nic_bc"] = nic_bc
    return ac


STATE_INPUTS = {"has_tpos": Choice(False, True), "pair": Choice(-1, 0, 1, 2, quick=[-1, 1, 2]),
                "ver": Choice(None, 0, 1, 2, 5, quick=[None, 1, 2]),
                "nic": Choice(0, 1, 2, 3, quick=[0, 3]),
                "lat": RealRange(-90, 90), "lon": RealRange(-180, 360), "dtpos": RealRange(0, 1000),
                "dt0": RealRange(0, 1000), "dt1": RealRange(0, 1000), "m0": HexStr(28), "m1": HexStr(28),
                "nic_s": IntRange(0, 1), "nic_a": IntRange(0, 1), "nic_bc": IntRange(0, 1),
                "t_last": RealRange(0, 100000), "tc_last": IntRange(0, 31), "d": RealRange(0, 400),
                "dnow": RealRange(0, 400), "live_b": IntRange(0, 100400)}


@harness("C17", inputs={"tc": Choice(*range(32)), "r": BinStr(51), "p": BinStr(24), "case": BinStr(28),
                         "t": RealRange(0, 100000), "dnow": RealRange(0, 400), "rx": Choice(False, True),
                         "lat0": RealRange(-90, 90), "lon0": RealRange(-180, 180)},
         functions=[D + "process_raw", D + "get_aircraft"], body_of=[D + "process_raw", D + "get_aircraft"],
         overrides=OVR, idealised=True)
def adsb_base_establishes_invariant(tc, r, p, case, t, dnow, rx, lat0, lon0):
    # (with and without a configured receiver location)
    dec = new_decoder(lat0, lon0) if rx else new_decoder()
    m = adsb_frame("A", bits_of(tc, 5) + r, p, case)
    o = outcome(dec.process_raw, [t], [m], [], [], t + dnow)
    assert o == ("ret", None), "process_raw does not raise on the first message of an aircraft"
    acs = dec.get_aircraft()
    if "ABCDEF" in acs:
        assert inv(acs["ABCDEF"]), "a freshly created record is inside the invariant (induction base)"
        assert "tpos" not in acs["ABCDEF"] and acs["ABCDEF"]["lat"] is None and acs["ABCDEF"]["lon"] is None, \
            "a single first message stores no position (a fix needs an even/odd pair or a previous fix)"


@harness("C17", inputs=dict(STATE_INPUTS, tc=Choice(*range(32), quick=[0, 2, 6, 11, 19, 29, 31]), ra=BinStr(16),
                            oe=Choice(0, 1), rb=BinStr(34), p=BinStr(24), case=BinStr(28), rx=Choice(False, True),
                            lat0=RealRange(-90, 90), lon0=RealRange(-180, 180)),
         functions=[D + "process_raw", D + "get_aircraft"], body_of=[D + "process_raw", D + "get_aircraft"],
         overrides=OVR, idealised=True, timeout={"quick": 120000, "thorough": 600000})
def adsb_step_preserves_invariant(has_tpos, pair, ver, nic, lat, lon, dtpos, dt0, dt1, m0, m1, nic_s, nic_a, nic_bc,
                                  t_last, tc_last, d, dnow, live_b, tc, ra, oe, rb, p, case, rx, lat0, lon0):
    # (the CPR format bit, ME bit 22, is a case parameter so that the slot the message is filed under is concrete)
    # case pruning: the stored pair, the NIC supplements and the version are only read for position type codes
    # (5-18, 20-22; version also for 19, 29, 31): for the other type codes the two extreme states suffice
    if not ((5 <= tc and tc <= 18) or (20 <= tc and tc <= 22)):
        assume((pair == -1 or pair == 2) and (nic == 0 or nic == 3))
        if not (tc == 19 or tc == 29 or tc == 31):
            assume(ver is None or ver == 2)
        assume(oe == 0)
    # the receiver location only matters to position messages (it is handed to position() for surface pairs)
    if not (5 <= tc and tc <= 18):
        assume(not rx)
    r = ra + bits_of(oe, 1) + rb
    dec = new_decoder(lat0, lon0) if rx else new_decoder()
    acs0 = {"012345": record("012345", live_b, 0)}
    acs0["012345"]["live"] = live_b
    acs0["012345"]["t"] = live_b
    acs0["ABCDEF"] = state_record(t_last, tc_last, has_tpos, pair, ver, nic, lat, lon, dtpos, dt0, dt1, m0, m1,
                                  nic_s, nic_a, nic_bc)
    assert inv(acs0["ABCDEF"]), "(the case parameters describe records inside the invariant)"
    dec.acs = acs0
    m = adsb_frame("A", bits_of(tc, 5) + r, p, case)
    t = t_last + d
    tnow = t + dnow
    assume(live_b <= tnow)
    o = outcome(dec.process_raw, [t], [m], [], [], tnow)
    assert o == ("ret", None), "from any record inside the invariant, process_raw does not raise on a DF17 message of arbitrary content"
    acs = dec.get_aircraft()
    for k in acs:
        assert k == "ABCDEF" or k == "012345", "table keys stay canonical upper-case addresses"
    if dnow <= 59:
        assert "ABCDEF" in acs, "the sender is listed when heard within the last 59 s"
    if dnow > 61:
        assert "ABCDEF" not in acs, "the sender is absent once silent for more than 61 s"
    assert ("012345" in acs) == (tnow - live_b <= 60), "a bystander is kept exactly while tnow - live <= cache timeout"
    if "ABCDEF" in acs:
        rec = acs["ABCDEF"]
        assert inv(rec), "the sender's record is inside the invariant again (induction step)"
        assert rec["t"] == t, "the record carries the time of the message"
        # plumbing of the accuracy clause: a stored position is the decode of THIS message - against the previous
        # fix when that is younger than 180 s, else against the opposite-parity frame heard less than 10 s before,
        # with this message as the newer one - and is otherwise left alone
        unchanged = has_tpos and rec["lat"] == lat and rec["lon"] == lon
        if "tpos" in rec and rec["tpos"] == t:
            # a position may have been stored by this call (or t coincides with the time of the previous fix)
            same_time = has_tpos and d == 0 and dtpos == 0
            ok = same_time and unchanged
            if 5 <= tc and tc <= 18:
                odd = oe == 1
                if has_tpos and d + dtpos < 180:
                    want = position_with_ref_abstract(m, lat, lon)
                    ok = ok or (rec["lat"] == want[0] and rec["lon"] == want[1])
                elif pair == 2 or (pair == 0 and odd) or (pair == 1 and not odd):
                    told = (t_last - dt0) if odd else (t_last - dt1)
                    me, mo = (m0, m) if odd else (m, m1)
                    te, to = (told, t) if odd else (t, told)
                    ra_, rb_ = (lat0, lon0) if rx else (None, None)
                    if t - told < 10 and abstract_int("position_outcome", 0, 2, me, mo, te, to, ra_, rb_) == 2:
                        ok = ok or (rec["lat"] == abstract_real("position.lat", -91, 91, me, mo, te, to, ra_, rb_) and
                                    rec["lon"] == abstract_real("position.lon", -361, 721, me, mo, te, to, ra_, rb_))
            assert ok, ("a position stored by this call is position_with_ref(this message, previous fix younger than "
                        "180 s), else position(even, odd) of this message and the opposite-parity frame heard less "
                        "than 10 s before, this message being the newer one")
        else:
            assert ("tpos" in rec) == has_tpos, "no fix appears or disappears without a position decode"
            if has_tpos:
                assert unchanged and rec["tpos"] == t_last - dtpos, "a record that stores no new position keeps the old one"


# (the Comm-B branch reads no optional field of the record: two extreme states, every optional key absent / present)
COMMB_STATE = dict(STATE_INPUTS, has_tpos=Choice(False, True), pair=Choice(-1, 2), ver=Choice(None, 2), nic=Choice(0, 3))


@harness("C17", inputs=dict(COMMB_STATE, head=BinStr(27), mb=BinStr(56), case=BinStr(28), df21=Choice(False, True),
                            cls=Choice(*range(12)), known=Choice(True, False)),
         functions=[D + "process_raw"], body_of=[D + "process_raw", D + "get_aircraft"], overrides=OVR, idealised=True,
         timeout={"quick": 120000, "thorough": 600000}, sampler=sample_commb, native_optional=True)
def commb_step_preserves_invariant(has_tpos, pair, ver, nic, lat, lon, dtpos, dt0, dt1, m0, m1, nic_s, nic_a, nic_bc,
                                   t_last, tc_last, d, dnow, live_b, head, mb, case, df21, cls, known):
    # extreme states only: all optional keys absent, or all present
    assume((has_tpos and pair == 2 and ver == 2 and nic == 3) or (not has_tpos and pair == -1 and ver is None and nic == 0))
    dec = new_decoder()
    acs0 = {"012345": record("012345", live_b, 0)}
    acs0["012345"]["live"] = live_b
    acs0["012345"]["t"] = live_b
    if known:
        acs0["ABCDEF"] = state_record(t_last, tc_last, has_tpos, pair, ver, nic, lat, lon, dtpos, dt0, dt1, m0, m1,
                                      nic_s, nic_a, nic_bc)
    dec.acs = acs0
    cb = commb_frame("A", df21, head, mb, case)
    assume(abstract_int("infer_class", 0, 11, cb, False) == cls)
    t = t_last + d
    tnow = t + dnow
    assume(live_b <= tnow)
    o = outcome(dec.process_raw, [], [], [t], [cb], tnow)
    assert o == ("ret", None), "from any record inside the invariant, process_raw does not raise on a Comm-B reply"
    acs = dec.get_aircraft()
    if not known:
        assert "ABCDEF" not in acs, "a Comm-B reply never creates a record"
    if known and dnow <= 59:
        assert "ABCDEF" in acs and acs["ABCDEF"]["t"] == t, "a reply of a known aircraft refreshes its record"
    if known and dnow > 61:
        assert "ABCDEF" not in acs, "absent once silent for more than 61 s"
    assert ("012345" in acs) == (tnow - live_b <= 60), "a bystander is kept exactly while tnow - live <= cache timeout"
    if "ABCDEF" in acs:
        assert inv(acs["ABCDEF"]), "the record is inside the invariant again (induction step)"


@harness("C17", inputs={}, kind="table",
         note="the kinematic side conditions of the accuracy clause, which were only argued before: a trajectory at up "
              "to 600 kt stays inside the preconditions under which C03 / C04 prove the decoders that process_raw "
              "calls (pair heard within 10 s -> global decode; fix younger than 180 s -> decode with reference).  "
              "Exhaustive over the 58 NL bands x parity x airborne / surface; cos by libm with 1e-9 relative margin.  "
              "Not covered, and said so: band 1 (|lat| > 87) on the surface, and surface pairs faster than 252 kt "
              "(C05 is proved for pairs up to 0.7 NM apart)")
def kinematic_side_conditions_imply_cpr_preconditions():
    import math
    from spec import cpr_spec
    from spec.nl_table import TRANSITION
    from contracts.c03 import PAIR_NM, lon_slack
    pair_nm = 600 * 10 / 3600              # NM flown in the 10 s pairing window
    ref_nm = 600 * 180 / 3600              # NM flown in the 180 s reference window
    assert pair_nm <= PAIR_NM, "600 kt x 10 s is within the pair distance C03 is proved for (longitude)"
    assert pair_nm / 60 <= 0.05, "600 kt x 10 s is within the pair distance C03 is proved for (latitude, 0.05 degree)"
    n = 0
    for surface in (False, True):
        for i in (0, 1):
            half = cpr_spec.dlat(i, surface) / 2 - cpr_spec.lat_step(i, surface)
            assert ref_nm / 60 <= half, "600 kt x 180 s of latitude is inside C04's half-zone box"
        for k in range(2, 60):
            # highest latitude at which a frame of band k, or the position 180 s / 10 s earlier, can lie
            top = float(TRANSITION[k]) + ref_nm / 60
            assume_top = min(top, 89.9)
            inv = (1 + 1e-9) / math.cos(math.radians(assume_top))
            if not surface:
                assert (pair_nm / 60) * (1 + 1e-9) / math.cos(math.radians(float(TRANSITION[k]) + 0.05)) \
                    <= PAIR_NM * lon_slack(k) / 60, "1.67 NM of longitude in band %d is inside C03's precondition" % k
            for i in (0, 1):
                half = cpr_spec.dlon(k, i, surface) / 2 - cpr_spec.lon_step(k, i, surface)
                assert (ref_nm / 60) * inv <= half, \
                    "30 NM of longitude in band %d is inside C04's half-zone box (parity %d, surface %s)" % (k, i, surface)
                n += 1
    assert n == 2 * 58 * 2, "every band x parity x kind visited"
