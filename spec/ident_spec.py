"""Identity (Mode A) code, Annex 10 Vol IV 3.1.2.6.7.1: the 13-bit ID field is
C1 A1 C2 A2 C4 A4 X B1 D1 B2 D2 B4 D4; the code is the four octal digits A B C D with
A = A4 A2 A1 etc.  The X bit (position 7) carries no information."""


def octal(b4, b2, b1):
    return int(b4, 2) * 4 + int(b2, 2) * 2 + int(b1, 2)


def squawk13(idbits):
    C1 = idbits[0]
    A1 = idbits[1]
    C2 = idbits[2]
    A2 = idbits[3]
    C4 = idbits[4]
    A4 = idbits[5]
    B1 = idbits[7]
    D1 = idbits[8]
    B2 = idbits[9]
    D2 = idbits[10]
    B4 = idbits[11]
    D4 = idbits[12]
    return str(octal(A4, A2, A1)) + str(octal(B4, B2, B1)) + str(octal(C4, C2, C1)) + str(octal(D4, D2, D1))


def interrogator_label(rem):
    """DF11: remainder = (CL << 4) | IC; CL=0 -> II code, CL=1..4 -> SI codes 1..63"""
    if rem > 79:
        return "corrupt IC"
    if rem < 16:
        return "II" + str(rem)
    return "SI" + str(rem - 16)


def emergency_squawk(msg):
    from spec import F
    from vc.api import require
    require(len(msg) == 28, "112-bit frame")
    bits = F.hexbits(msg)
    if F.tc_of(bits) != 28:
        raise RuntimeError("TC28 expected")
    me = F.me(bits)
    return squawk13(me[11:24])
