"""Native face of the harness API (pure Python, no z3): the same harness / spec source is
executed by CPython (replay, cross-check, bounded stand-in) and by the VC generator
(symbolically; see api_sym.py for the symbolic face of these names).
"""
import importlib
import importlib.util
import math
import os
import random
import sys
from fractions import Fraction

REPO_SRC = os.path.join(os.environ.get("VC_REPO", "/repo"), "src")
COMMON_IMPL = os.environ.get("VC_COMMON", "py")


# ------------------------------------------------------------------ input domains
class Domain:
    pass


class BinStr(Domain):
    def __init__(self, n):
        self.n = n

    def sample(self, rng):
        return "".join(rng.choice("01") for _ in range(self.n))

    def size(self):
        return 2 ** self.n

    def enumerate(self):
        for v in range(2 ** self.n):
            yield format(v, "0%db" % self.n) if self.n else ""


class HexStr(Domain):
    """hex string of n digits; case: 'upper' | 'lower' | 'any' (per-character free)"""

    def __init__(self, n, case="any"):
        self.n = n
        self.case = case

    def sample(self, rng):
        out = []
        for _ in range(self.n):
            ch = rng.choice("0123456789ABCDEF")
            if self.case == "lower" or (self.case == "any" and rng.random() < 0.5):
                ch = ch.lower()
            out.append(ch)
        return "".join(out)


class IntRange(Domain):
    def __init__(self, lo, hi):
        self.lo = lo
        self.hi = hi

    def sample(self, rng):
        r = rng.random()
        if r < 0.1:
            return self.lo
        if r < 0.2:
            return self.hi
        return rng.randint(self.lo, self.hi)

    def size(self):
        return self.hi - self.lo + 1

    def enumerate(self):
        return range(self.lo, self.hi + 1)


class RealRange(Domain):
    def __init__(self, lo, hi):
        self.lo = lo
        self.hi = hi

    def sample(self, rng):
        # boundary-directed: the ends of the range, zero and small magnitudes are over-represented
        r = rng.random()
        lo, hi = float(self.lo), float(self.hi)
        if r < 0.05:
            return lo
        if r < 0.1:
            return hi
        if r < 0.16 and lo <= 0.0 <= hi:
            return 0.0
        if r < 0.2 and lo <= 0.0 <= hi:
            v = rng.choice([-1, 1]) * 10 ** rng.uniform(-12, 0)
            return min(max(v, lo), hi)
        return rng.uniform(lo, hi)


class RealVec(Domain):
    """list of n reals in [lo, hi]"""

    def __init__(self, n, lo, hi):
        self.n = n
        self.lo = lo
        self.hi = hi

    def sample(self, rng):
        r = RealRange(self.lo, self.hi)
        return [r.sample(rng) for _ in range(self.n)]


class Bool(Domain):
    def sample(self, rng):
        return rng.random() < 0.5

    def size(self):
        return 2

    def enumerate(self):
        return [False, True]


class Choice(Domain):
    """finite set of concrete values; the driver runs one sub-obligation per value"""

    def __init__(self, *values, quick=None):
        self.values = list(values)
        self.quick = list(quick) if quick is not None else None   # subset explored in the quick tier

    def sample(self, rng):
        return rng.choice(self.values)


# ------------------------------------------------------------------ registry
HARNESSES = {}
CONTRACTS = {}
PROPERTY_LEVEL = {}


def property_level(prop, level, why):
    """cap the evidence level of a property whose main clause is only covered by bounded checks"""
    PROPERTY_LEVEL[prop] = (level, why)


class Harness:
    def __init__(self, fn, hid, prop, inputs, functions, body_of, uses, note, idealised, timeout, regions,
                 kind="proof", overrides=None, sampler=None, backend="z3", uf_axioms=False, config="py",
                 native_optional=False, bound=None):
        self.kind = kind
        self.bound = bound
        self.native_optional = native_optional
        self.config = config
        self.uf_axioms = uf_axioms
        self.backend = backend
        self.sampler = sampler
        self.overrides = dict(overrides or {})
        self.fn = fn
        self.id = hid
        self.prop = prop
        self.inputs = inputs
        self.functions = functions
        self.body_of = body_of
        self.uses = uses
        self.note = note
        self.idealised = idealised
        self.timeout = timeout
        self.module = fn.__module__
        self.name = fn.__name__
        self.regions = regions


def harness(prop, inputs, functions=(), body_of=(), uses="default", note="", idealised=False, timeout=None,
            hid=None, regions=(), kind="proof", overrides=None, sampler=None, backend="z3", uf_axioms=False,
            config="py", native_optional=False, bound=None):
    """register a proof harness.
    bound     {tier: number of sampled inputs} for kind='bounded' harnesses whose single run is expensive
              (default: the tier's stand-in budget)
    prop      property id(s) the obligation belongs to (str or tuple)
    inputs    {param: Domain}
    functions qualified names of the repository functions under contract in this harness
    body_of   functions whose *body* is verified here (their own contract is not substituted)
    config    'py' (default) or 'c': which common module pyModeS selects at import time in the symbolic run
              (c = the Python translation of c_common.pyx, see vc/pyx2py.py)
    backend   'z3' (default) or 'ivbb': obligations containing transcendental functions are sent
              to the interval branch-and-bound back end first
    sampler   native-only generator sampler(rng, fixed) -> dict of inputs satisfying the harness
              assumptions with good probability (used by the cross-check / bounded stand-in
              instead of independent uniform sampling of each domain)
    overrides {qualname: spec function} - a weaker contract used instead of the registered
              one in this harness only (e.g. "crc returns some 24-bit value determined by
              its arguments" where the caller needs no more)
    uses      names of callee contracts substituted at call sites ('default' = all registered)
    kind      'proof'   VCs generated by symbolic execution and discharged by a solver (default)
              'table'   finite fact about literal tables / the spec, decided by exhaustive
                        native evaluation (no inputs; counted as discharged by back end "table")
              'bounded' function outside the verifier's reach: native sampling only, labelled
                        bounded, never counted as proved
    idealised True when the inputs range over an idealised domain (reals for floats):
              a refutation that does not replay natively is then reported with
              no-failing-input-found instead of being an engine error
    """
    def deco(fn):
        h = Harness(fn, hid or (fn.__module__.split(".")[-1] + "." + fn.__name__), prop, inputs,
                    list(functions), list(body_of), uses, note, idealised, timeout, list(regions), kind,
                    overrides, sampler, backend, uf_axioms, config, native_optional, bound)
        HARNESSES[h.id] = h
        fn.harness = h
        return fn
    return deco


def contract(qualname, pure=True):
    """register `fn` as the functional contract (spec function) of repository function
    `qualname`: at call sites the callee is replaced by this function (after its
    require() clauses have been proved)."""
    def deco(fn):
        CONTRACTS[qualname] = fn
        fn.contract_of = qualname
        return fn
    return deco


# ------------------------------------------------------------------ intrinsics (native semantics)
class AssumptionFailed(Exception):
    """input outside the harness precondition (not a failure)"""


def assume(cond):
    if not cond:
        raise AssumptionFailed()


def require(cond, what=""):
    """precondition of a contract: proved at every call site by the VC generator;
    natively an assertion"""
    if not cond:
        raise AssertionError("precondition violated: " + what)


def outcome(f, *args, **kwargs):
    """('ret', value) or ('raise', exception class name)"""
    try:
        return ("ret", f(*args, **kwargs))
    except AssumptionFailed:
        raise
    except AssertionError:
        raise
    except Exception as e:  # noqa
        return ("raise", type(e).__name__)


def bits_of(value, width):
    """big-endian binary string of `value` on `width` bits (requires 0 <= value < 2**width)"""
    if not (0 <= value < (1 << width)):
        raise AssertionError("bits_of: %r does not fit %d bits" % (value, width))
    return format(value, "0%db" % width) if width else ""


def hex_of_bits(binstr, case=None):
    """hex string of a binary string whose length is a multiple of 4.
    case: None = upper; otherwise a binary string, one flag per hex digit ('1' = upper)"""
    n = len(binstr) // 4
    s = ("%0*X" % (n, int(binstr, 2))) if n else ""
    if case is not None:
        s = "".join(ch if c == "1" else ch.lower() for ch, c in zip(s, case))
    return s


def ufun(name, *args):
    """uninterpreted real function (natively: the libm function of that name)"""
    return NATIVE_UF[name](*[float(a) for a in args])


NATIVE_UF = {
    "cos": math.cos, "sin": math.sin, "arccos": math.acos, "sqrt": math.sqrt, "atan2": math.atan2,
    "exp": math.exp, "pow": math.pow, "log10": math.log10,
}


def exact(x):
    """the exact rational value of a number (natively Fraction(x); identity in the VC generator,
    where every number is already a mathematical real)"""
    return Fraction(x)


def frac(a, b):
    """exact quotient a / b"""
    return Fraction(a) / Fraction(b)


def pi_const():
    return math.pi


def opaque(name, *args):
    """value of a callee known only through its name and arguments (dispatcher proofs).
    natively: call the registered implementation"""
    return NATIVE_OPAQUE[name](*args)


NATIVE_OPAQUE = {}


def abstract_int(name, lo, hi, *args):
    """an integer in [lo, hi] that is a function of `args` only, otherwise unconstrained
    (symbolically: a fresh variable per distinct argument tuple; natively: the registered
    implementation, whose range is asserted)"""
    v = NATIVE_ABSTRACT[name](*args)
    if not (lo <= v <= hi):
        raise AssertionError("abstract_int %s out of its declared range" % name)
    return v


def abstract_real(name, lo, hi, *args):
    """a real number in [lo, hi] that is a function of `args` only (see abstract_int)"""
    v = NATIVE_ABSTRACT[name](*args)
    if not (lo <= v <= hi):
        raise AssertionError("abstract_real %s out of its declared range" % name)
    return v


NATIVE_ABSTRACT = {}


def hexdigit_value(code):
    """value 0..15 of a character code known to be a hex digit, else None (the VC generator answers from the
    provenance of the code: a character of a hex string)"""
    ch = chr(code)
    return int(ch, 16) if ch in "0123456789abcdefABCDEF" else None


def new_object(cls, **attrs):
    """instance of `cls` created without running __init__ (no hardware / sockets)"""
    o = object.__new__(cls)
    for k, v in attrs.items():
        setattr(o, k, v)
    return o


def is_symbolic():
    return False


def close(a, b, tol=1e-9):
    """numeric equality: exact in the VC generator (reals), tolerance natively (floats)"""
    if a is None or b is None:
        return a is None and b is None
    a, b = float(a), float(b)
    return abs(a - b) <= tol * max(1.0, abs(a), abs(b))


def outcome_close(o1, o2, tol=1e-9):
    """equality of two outcome() tuples with numeric tolerance on floats (native side)"""
    return _deep_close(o1, o2, tol)


def _deep_close(a, b, tol):
    if isinstance(a, (tuple, list)) and isinstance(b, (tuple, list)):
        return len(a) == len(b) and all(_deep_close(x, y, tol) for x, y in zip(a, b))
    if isinstance(a, bool) or isinstance(b, bool):
        return a == b
    if isinstance(a, (int, float, Fraction)) and isinstance(b, (int, float, Fraction)):
        return close(float(a), float(b), tol)
    return a == b


# ------------------------------------------------------------------ access to the real code
class _Lazy:
    def __init__(self, name):
        object.__setattr__(self, "_name", name)
        object.__setattr__(self, "_mod", None)

    def _load(self):
        m = object.__getattribute__(self, "_mod")
        if m is None:
            name = object.__getattribute__(self, "_name")
            m = _import_real(name)
            object.__setattr__(self, "_mod", m)
        return m

    def __getattr__(self, k):
        return getattr(self._load(), k)


def _import_real(name):
    if REPO_SRC not in sys.path:
        sys.path.insert(0, REPO_SRC)
    if name == "pyModeS.c_common":
        # the pre-built extension cannot be rebuilt here (no Cython): natively we execute the same mechanical
        # Python translation of the current c_common.pyx text that the VC generator analyses
        import types
        from vc.pyx2py import pyx_to_python
        verif = os.path.dirname(os.path.dirname(os.path.abspath(__file__)))
        if verif not in sys.path:
            sys.path.insert(0, verif)
        path = os.path.join(REPO_SRC, "pyModeS", "c_common.pyx")
        m = types.ModuleType("pyModeS_c_common_translated")
        m.__file__ = path
        exec(compile(pyx_to_python(open(path).read()), path, "exec"), m.__dict__)
        return m
    return importlib.import_module(name)


def repo(name):
    """the repository module `name` (natively imported lazily; symbolically loaded from
    the source text under /repo)"""
    return _Lazy(name)
