"""ADS-B (DF17/18 extended squitter) field layouts, DO-260B 2.2.3.2 / Annex 10 Vol IV.
ME bit numbers are 1-based within the 56-bit ME field (frame bits 33-88)."""
from vc.api import require
from spec import F
from spec import alt_spec


def need112(msg):
    require(len(msg) == 28, "112-bit frame")
    return F.hexbits(msg)


# ----------------------------------------------------------------------------- altitude (C07)
def altitude05(msg):
    bits = need112(msg)
    tc = F.tc_of(bits)
    if tc is None or tc < 9 or tc == 19 or tc > 22:
        raise RuntimeError("not an airborne position message")
    me = F.me(bits)
    if tc <= 18:
        return alt_spec.alt12(me[8:20])
    return F.field(me, 9, 20) * alt_spec.FT_PER_M


def altitude(msg):
    bits = need112(msg)
    tc = F.tc_of(bits)
    if tc is None or tc < 5 or tc == 19 or tc > 22:
        raise RuntimeError("not a position message")
    if tc <= 8:
        return 0
    return altitude05(msg)


def surv_altitude(msg):
    require(len(msg) == 14 or len(msg) == 28, "56- or 112-bit frame")
    bits = F.hexbits(msg)
    d = F.df_of(bits)
    if d == 4:
        return alt_spec.alt13(bits[19:32])
    raise RuntimeError("DF4 expected (DF5 carries an identity code, not an altitude)")
