"""Compact position reporting encoder, DO-260B Appendix A.1.7.3 (airborne, Nb = 17) and
A.1.7.4 (surface; Nb = 19 keeping the low 17 bits, which equals a 90-degree span with Nb = 17).
Everything is exact rational / real arithmetic."""
from spec import nl_spec
from vc.api import is_symbolic, close, exact, frac

NZ = 15
TWO17 = 131072


def floor(x):
    return int(x // 1)


def dlat(i, surface):
    span = 90 if surface else 360
    return frac(span, 4 * NZ - i)


def encode_lat(lat, i, surface):
    """-> (YZ in 0..2^17-1, Rlat) : the 17-bit latitude field and the latitude it stands for"""
    d = dlat(i, surface)
    lat = exact(lat)
    yz = floor(TWO17 * (lat % d) / d + frac(1, 2))
    rlat = d * (frac(yz, TWO17) + floor(lat / d))
    return yz % TWO17, rlat


def dlon(nl, i, surface):
    span = 90 if surface else 360
    n = nl - i
    return frac(span, n if n >= 1 else 1)


def encode_lon(lon, nl, i, surface):
    """-> (XZ, Rlon) for a frame whose latitude lies in NL band `nl`"""
    d = dlon(nl, i, surface)
    lon = exact(lon)
    xz = floor(TWO17 * (lon % d) / d + frac(1, 2))
    rlon = d * (frac(xz, TWO17) + floor(lon / d))
    return xz % TWO17, rlon


def encode(lat, lon, i, surface):
    yz, rlat = encode_lat(lat, i, surface)
    nl = nl_spec.NL(rlat)
    xz, rlon = encode_lon(lon, nl, i, surface)
    return yz, xz, rlat, rlon


def congruent360(a, b):
    """a == b modulo 360 (exact in the VC generator, 1e-9 tolerance on binary64)"""
    n = (a - b) / 360
    n = n if is_symbolic() else float(n)
    if is_symbolic():
        return n == n // 1
    return abs(n - round(n)) < 1e-9


def within_mod360(a, b, tol):
    """|a - b| <= tol up to a multiple of 360 (the nearest multiple is the only candidate)"""
    d = a - b
    n = floor(d / 360 + frac(1, 2))
    r = d - 360 * n
    return -tol <= r and r <= tol


def lat_step(i, surface):
    """one CPR quantisation step of latitude for a frame of parity i"""
    return dlat(i, surface) / TWO17


def lon_step(nl, i, surface):
    """one CPR quantisation step of longitude in NL band nl for a frame of parity i"""
    return dlon(nl, i, surface) / TWO17


# ----------------------------------------------------------------------------------------
# native-only helpers for sampling positions inside a given NL band (cross-check / stand-in)
def band_limits(k):
    from spec.nl_table import TRANSITION
    hi = 90.0 if k == 1 else float(TRANSITION[k])
    lo = 0.0 if k == 59 else float(TRANSITION[k + 1])
    return lo, hi


def sample_lat_in_band(rng, k, margin=0.0):
    lo, hi = band_limits(k)
    r = rng.random()
    if r < 0.15:
        a = lo + rng.random() * min(0.05, hi - lo)
    elif r < 0.3:
        a = hi - rng.random() * min(0.05, hi - lo)
    else:
        a = rng.uniform(lo, hi)
    a = min(max(a, lo + margin), hi - margin)
    return a if rng.random() < 0.5 else -a
