"""C16 - stream framing is independent of how the byte stream is chunked."""
from vc.api import (harness, contract, repo, outcome, assume, new_object, property_level, BinStr, HexStr, IntRange,
                    Choice, Bool)
from spec import framing_spec
from spec import F

property_level("C16", "other", "chunk independence is a whole-history property over unbounded byte streams.  Deductive: the AVR "
               "raw framer is shown to be a fold of a per-byte transition with all state in (current_msg, msg_stop) - "
               "transition for every state and byte value, loop composition for 2-3 bytes, the fold-associativity step "
               "itself argued - and the forwarding clause of NetSource.handle_messages; the Beast and Skysense framers "
               "(look-ahead over the whole buffer) are covered by bounded native enumeration only")

# sampled streams per bounded harness and tier (each sample is a multi-frame stream under several segmentations)
BOUND = {"quick": 20000, "thorough": 100000}

TCP = repo("pyModeS.extra.tcpclient")
SRC = repo("pyModeS.streamer.source")
T = "pyModeS.extra.tcpclient.TcpClient."


def feed(datatype, stream, cuts):
    """run the real client on `stream` delivered in the pieces given by `cuts`; -> list of messages"""
    c = new_object(TCP.TcpClient, buffer=[], datatype=datatype, current_msg="", msg_stop=False)
    out = []
    pos = 0
    for cut in list(cuts) + [len(stream)]:
        piece = stream[pos:cut]
        pos = cut
        c.buffer.extend(piece)
        if datatype == "beast":
            r = c.read_beast_buffer()
        elif datatype == "raw":
            r = c.read_raw_buffer()
        else:
            r = c.read_skysense_buffer()
        if r:
            out.extend(m[0] for m in r)
    return out


def raw_stream(rng):
    out = []
    for _ in range(rng.randint(1, 4)):
        n = rng.choice([14, 28])
        out += [42] + [ord(c) for c in "".join(rng.choice("0123456789abcdefABCDEF") for _ in range(n))] + [59]
        out += rng.choice([[], [10], [13, 10]])
    return out


def sample_raw(rng, fixed):
    s = raw_stream(rng)
    k = rng.randint(0, 3)
    cuts = sorted(rng.randint(0, len(s)) for _ in range(k))
    return {"stream": s, "cuts": cuts}


class _ListDomain:
    """placeholder domain: values come from the sampler"""
    def sample(self, rng):
        return []


from vc.api import Domain


class Stream(Domain):
    def sample(self, rng):
        return []


@harness("C16", inputs={"stream": Stream(), "cuts": Stream()}, kind="bounded", bound=BOUND, sampler=sample_raw,
         functions=[T + "read_raw_buffer"],
         note="AVR framing: random streams of 1-4 frames, every segmentation into up to 4 pieces (sampled)")
def raw_chunk_independent(stream, cuts):
    assert feed("raw", stream, cuts) == framing_spec.parse_raw(stream), \
        "raw: messages over all reads == frames of the whole stream, wherever the cuts fall"


def sample_raw_exhaustive_cuts(rng, fixed):
    return {"stream": raw_stream(rng)}


@harness("C16", inputs={"stream": Stream()}, kind="bounded", bound={"quick": 3000, "thorough": 20000}, sampler=sample_raw_exhaustive_cuts,
         functions=[T + "read_raw_buffer"], note="every single and double cut position of the sampled stream")
def raw_all_single_and_double_cuts(stream):
    want = framing_spec.parse_raw(stream)
    n = len(stream)
    for a in range(n + 1):
        assert feed("raw", stream, [a]) == want, "raw: single cut at %d" % a
    step = 1 if n <= 40 else 3
    for a in range(0, n + 1, step):
        for b in range(a, n + 1, step):
            assert feed("raw", stream, [a, b]) == want, "raw: double cut at %d,%d" % (a, b)


def beast_stream(rng, with_escape):
    out = []
    for _ in range(rng.randint(1, 3)):
        t = rng.choice([0x31, 0x32, 0x33, 0x33])
        n = {0x31: 2, 0x32: 7, 0x33: 14}[t]

        def byte():
            if with_escape and rng.random() < 0.15:
                return 0x1A
            return rng.choice([0x00, 0x8D, 0x5D, 0xA0, 0x20, 0xFF, 0x33, rng.randint(0, 255)])
        ts = [byte() for _ in range(6)]
        sig = byte()
        payload = [byte() for _ in range(n)]
        if t != 0x31:
            payload[0] = rng.choice([0x8D, 0x5D, 0xA0, 0x20, 0x28, 0x90, 0xA8]) if t == 0x33 else rng.choice([0x5D, 0x20, 0x28, 0x02])
        out += framing_spec.beast_encode(t, ts, sig, payload)
    out += [0x1A, 0x31]         # start of a following frame, so that the last one is complete
    return out


def sample_beast(rng, fixed):
    s = beast_stream(rng, fixed.get("escapes", True))
    k = rng.randint(0, 3)
    return {"stream": s, "cuts": sorted(rng.randint(0, len(s)) for _ in range(k))}


def region_beast_cut_at_escape_byte(stream, cuts, escapes):
    """F11: some piece ends right after a 0x1A byte (frame delimiter or half of an escape pair), or a frame
    containing an escaped 0x1A is split across reads"""
    ends = [c for c in cuts if 0 < c <= len(stream) and stream[c - 1] == 0x1A]
    if ends:
        return True
    if len(stream) > 0 and stream[-1] == 0x1A:
        return True
    # escaped 0x1A carried over in the remainder
    frames_start = [i for i in range(len(stream)) if stream[i] == 0x1A and (i == 0 or stream[i - 1] != 0x1A)
                    and (i + 1 < len(stream) and stream[i + 1] != 0x1A)]
    for c in cuts:
        prev = [i for i in frames_start if i < c]
        if prev:
            seg = stream[prev[-1] + 1:c]
            if 0x1A in seg:
                return True
    return False


@harness("C16", inputs={"stream": Stream(), "cuts": Stream(), "escapes": Choice(True, False)}, kind="bounded", bound=BOUND,
         sampler=sample_beast, functions=[T + "read_beast_buffer"], regions=["region_beast_cut_at_escape_byte"],
         note="Beast framing: random streams of 1-3 frames (0x1A anywhere in timestamp, level or message when "
              "escapes=True), up to 4 pieces")
def beast_chunk_independent(stream, cuts, escapes):
    assert feed("beast", stream, cuts) == framing_spec.parse_beast(stream), \
        "beast: messages over all reads == frames completely received, wherever the cuts fall"


def sky_stream(rng):
    out = []
    for _ in range(rng.randint(1, 3)):
        long_ = rng.random() < 0.6
        p0 = rng.choice([0x8D, 0xA0, 0x90]) if long_ else rng.choice([0x5D, 0x20, 0x28])
        payload = [p0] + [rng.choice([0x24, 0x00, rng.randint(0, 255)]) for _ in range(13)]
        out += [0x24] + payload + [rng.randint(0, 255) for _ in range(9)]
        if rng.random() < 0.2:
            out += [rng.randint(0, 255) for _ in range(rng.randint(1, 3))]   # line noise between frames
    out += [0x24]
    return out


def sample_sky(rng, fixed):
    s = sky_stream(rng)
    k = rng.randint(0, 3)
    return {"stream": s, "cuts": sorted(rng.randint(0, len(s)) for _ in range(k))}


@harness("C16", inputs={"stream": Stream(), "cuts": Stream()}, kind="bounded", bound=BOUND, sampler=sample_sky,
         functions=[T + "read_skysense_buffer"], note="Skysense framing: random streams, up to 4 pieces")
def skysense_chunk_independent(stream, cuts):
    assert feed("skysense", stream, cuts) == framing_spec.parse_skysense(stream), \
        "skysense: messages over all reads == frames of the whole stream, wherever the cuts fall"


class FakePipe:
    def __init__(self):
        self.sent = []

    def send(self, obj):
        self.sent.append(obj)


class FakeFlag:
    def __init__(self):
        self.value = False


def expected_forwarding(batches):
    """reference: every long DF17/18 and DF20/21 message, once, in order, split into the batches the
    source sends (it sends when at least two ADS-B messages are waiting)"""
    sent = []
    adsb_m, adsb_t, commb_m, commb_t = [], [], [], []
    for batch in batches:
        for msg, t in batch:
            if len(msg) < 28:
                continue
            d = F.df_of(F.hexbits(msg))
            if d == 17 or d == 18:
                adsb_m.append(msg)
                adsb_t.append(t)
            elif d == 20 or d == 21:
                commb_m.append(msg)
                commb_t.append(t)
        if len(adsb_m) > 1:
            sent.append({"adsb_ts": adsb_t, "adsb_msg": adsb_m, "commb_ts": commb_t, "commb_msg": commb_m})
            adsb_m, adsb_t, commb_m, commb_t = [], [], [], []
    return sent, adsb_m, commb_m


@harness("C16", inputs={"m1": HexStr((14, 28)), "m2": HexStr((14, 28)), "m3": HexStr((14, 28)), "m4": HexStr(28),
                         "split": Choice(0, 1, 2, 3, 4)},
         functions=["pyModeS.streamer.source.NetSource.handle_messages", "pyModeS.streamer.source.NetSource.reset_local_buffer"],
         body_of=["pyModeS.streamer.source.NetSource.handle_messages", "pyModeS.streamer.source.NetSource.reset_local_buffer"])
def netsource_forwards_each_message_once(m1, m2, m3, m4, split):
    # four messages of arbitrary content (three of either length), handed over in two calls split anywhere
    src = new_object(SRC.NetSource, stop_flag=FakeFlag(), raw_pipe_in=FakePipe())
    src.reset_local_buffer()
    msgs = [[m1, 1], [m2, 2], [m3, 3], [m4, 4]]
    b1 = msgs[:split]
    b2 = msgs[split:]
    src.handle_messages(b1)
    src.handle_messages(b2)
    want_sent, want_adsb, want_commb = expected_forwarding([b1, b2])
    assert src.raw_pipe_in.sent == want_sent, "objects sent on the pipe carry every long DF17/18 and DF20/21 message once, in order"
    assert src.local_buffer_adsb_msg == want_adsb and src.local_buffer_commb_msg == want_commb, \
        "messages not yet sent are still waiting in the local buffers (none lost)"


# ------------------------------------------------------------------------------------------------------------
# AVR raw framer, deductively: read_raw_buffer is a fold of framing_spec.raw_step over the bytes of the buffer,
# with all of its state in (current_msg, msg_stop).  For a fold, feeding a stream in pieces is the same as feeding
# it whole - that last step (associativity of folds) is the meta-argument; the obligations below are (1) the
# per-byte transition for every state and every byte value, (2) the loop composes transitions and keeps no other
# state (buffers of 2 and 3 arbitrary bytes), (3) nothing but (current_msg, msg_stop, buffer) is written.
def _raw_client(cur, stop, buf):
    return new_object(TCP.TcpClient, buffer=buf, datatype="raw", current_msg=cur, msg_stop=stop, host="h", port=0,
                      socket=None, raw_pipe_in=None, stop_flag=False, exception_queue=None)


@harness("C16", inputs={"cur": HexStr((0, 1, 13, 14, 27, 28, 30)), "stop": Choice(False, True), "b": IntRange(0, 255)},
         functions=[T + "read_raw_buffer"], body_of=[T + "read_raw_buffer"])
def raw_step_lemma(cur, stop, b):
    c = _raw_client(cur, stop, [b])
    out = c.read_raw_buffer()
    e, cur2, stop2 = framing_spec.raw_step(cur, stop, b)
    if e is None:
        assert len(out) == 0, "a byte other than ';' emits nothing"
    else:
        assert len(out) == 1 and out[0][0] == e, "';' emits the text assembled so far, once"
    assert c.current_msg == cur2 and c.msg_stop == stop2, "framer state after one byte == raw_step(state, byte)"
    assert c.buffer == [], "the consumed byte is removed from the buffer"


@harness("C16", inputs={"cur": HexStr((0, 13, 28)), "stop": Choice(False, True), "b1": IntRange(0, 255),
                         "b2": IntRange(0, 255), "b3": IntRange(0, 255), "n": Choice(2, 3)},
         functions=[T + "read_raw_buffer"], body_of=[T + "read_raw_buffer"])
def raw_loop_composes_steps(cur, stop, b1, b2, b3, n):
    buf = [b1, b2] if n == 2 else [b1, b2, b3]
    c = _raw_client(cur, stop, list(buf))
    out = c.read_raw_buffer()
    want, cur2, stop2 = framing_spec.raw_fold(buf, cur, stop)
    assert [m[0] for m in out] == want, "messages of one read == fold of raw_step over its bytes, in order"
    assert c.current_msg == cur2 and c.msg_stop == stop2 and c.buffer == [], "state after the read == state of the fold"
    # the same bytes one at a time, carrying the state in the object only
    c2 = _raw_client(cur, stop, [])
    got = []
    for b in buf:
        c2.buffer.extend([b])
        got.extend(m[0] for m in c2.read_raw_buffer())
    assert got == want and c2.current_msg == cur2 and c2.msg_stop == stop2, \
        "feeding the bytes one read at a time gives the same messages and state (chunk independence, 2-3 bytes)"


class _Seed(Stream):
    def sample(self, rng):
        return rng.randint(0, 10 ** 9)


@harness("C16", inputs={"seed": _Seed()}, kind="bounded", functions=[T + "read_raw_buffer"],
         note="spec-level lemma: on well-formed '*<hex>;' streams (with CR/LF or nothing between frames) the fold of "
              "raw_step from the initial state emits exactly parse_raw(stream)")
def raw_fold_is_parse(seed):
    import random
    rng = random.Random(seed)
    stream = raw_stream(rng)
    assert framing_spec.raw_fold(stream)[0] == framing_spec.parse_raw(stream), "fold of raw_step == reference parser"
