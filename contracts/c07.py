"""C07 - altitude codes decode to the Annex 10 altitude (all 8192 / 4096 codes at once)."""
from vc.api import harness, contract, repo, outcome, assume, BinStr, HexStr, IntRange
from spec import common_spec as CS
from spec import alt_spec
from spec import adsb_spec
from spec import F

PC = repo("pyModeS.py_common")
BDS05 = repo("pyModeS.decoder.bds.bds05")
ADSB = repo("pyModeS.decoder.adsb")
SURV = repo("pyModeS.decoder.surv")
P = "pyModeS.py_common."

contract("pyModeS.decoder.bds.bds05.altitude")(adsb_spec.altitude05)
contract("pyModeS.decoder.adsb.altitude")(adsb_spec.altitude)


@harness("C07", inputs={"g": BinStr((3, 8, 11, 16))}, functions=[P + "gray2int"], body_of=[P + "gray2int"])
def gray2int_body(g):
    assert outcome(PC.gray2int, g) == outcome(CS.gray2int, g), "gray2int == prefix-XOR Gray decode"


@harness("C07", inputs={"g": BinStr(11)}, functions=[P + "gray2alt"], body_of=[P + "gray2alt"])
def gray2alt_body(g):
    assert outcome(PC.gray2alt, g) == outcome(CS.gray2alt, g), "gray2alt == Gillham 500ft Gray + reflected 100ft code"


@harness(("C07", "C14"), inputs={"code": BinStr(13)}, functions=[P + "altitude"], body_of=[P + "altitude"])
def altitude_body(code):
    assert outcome(PC.altitude, code) == outcome(alt_spec.alt13, code), "altitude == Annex 10 alt13 for all 8192 codes"


@harness(("C07", "C14"), inputs={"code": BinStr((0, 12, 14))}, functions=[P + "altitude"], body_of=[P + "altitude"])
def altitude_wrong_length(code):
    assert outcome(PC.altitude, code) == ("raise", "RuntimeError"), "altitude rejects strings that are not 13 bits"


@harness(("C07", "C14"), inputs={"msg": HexStr((14, 28))}, functions=[P + "altcode"], body_of=[P + "altcode"])
def altcode_body(msg):
    assert outcome(PC.altcode, msg) == outcome(CS.altcode, msg), "altcode == alt13(bits 20-32) for DF0/4/16/20, RuntimeError otherwise"


@harness(("C07", "C14"), inputs={"msg": HexStr(28)}, functions=["pyModeS.decoder.bds.bds05.altitude"],
         body_of=["pyModeS.decoder.bds.bds05.altitude"])
def altitude05_body(msg):
    assert outcome(BDS05.altitude, msg) == outcome(adsb_spec.altitude05, msg), \
        "bds05.altitude == alt12(ME 9-20) for TC9-18, GNSS metres*3.28084 for TC20-22, RuntimeError otherwise"


@harness(("C07", "C14"), inputs={"msg": HexStr(28)}, functions=["pyModeS.decoder.adsb.altitude"],
         body_of=["pyModeS.decoder.adsb.altitude"])
def adsb_altitude_body(msg):
    assert outcome(ADSB.altitude, msg) == outcome(adsb_spec.altitude, msg), \
        "adsb.altitude == 0 for TC5-8, bds05.altitude for TC9-18/20-22, RuntimeError otherwise"


@harness(("C07", "C14"), inputs={"msg": HexStr((14, 28))}, functions=["pyModeS.decoder.surv.altitude"],
         body_of=["pyModeS.decoder.surv.altitude"])
def surv_altitude_body(msg):
    assert outcome(SURV.altitude, msg) == outcome(adsb_spec.surv_altitude, msg), \
        "surv.altitude == altcode for DF4 (and RuntimeError for every other DF)"


@harness("C07", inputs={"n": IntRange(1, 4095)}, functions=[P + "altitude", "pyModeS.decoder.bds.bds05.altitude"])
def metres_to_feet_robust(n):
    # robustness side-obligation (A2): the real value n*3.28084 is never an integer for
    # 0 < n < 4096, so truncation in binary64 and in the reals agree (distance >= 4e-5)
    assert (n * 82021) % 25000 != 0, "n*3.28084 is at least 4e-5 away from an integer"
