"""usage: try_seed_wt.py <seed dir with patch.diff demo.py> <PROP> [more props]
Like try_seed.py but never touches /repo's working tree: makes a scratch git worktree of /repo's HEAD under
/tmp/st, applies the patch there, runs the pinned tests, the demo and `VC_REPO=<worktree> ./check PROP quick`
(development aid only: the registered commands always run against /repo), then removes the worktree.
Several of these can run side by side."""
import subprocess, sys, os, shutil
d = os.path.abspath(sys.argv[1]); props = sys.argv[2:]
name = d.strip("/").replace("/", "_")
wt = "/tmp/st/" + name
def run(cmd, cwd=None, env=None, timeout=7200):
    r = subprocess.run(cmd, cwd=cwd, capture_output=True, text=True, env=env, timeout=timeout)
    return r.returncode, (r.stdout + r.stderr)
os.makedirs("/tmp/st", exist_ok=True)
run(["git", "-C", "/repo", "worktree", "remove", "--force", wt])
rc, out = run(["git", "-C", "/repo", "worktree", "add", "--detach", wt, "HEAD"])
if rc != 0:
    print("worktree:", out); sys.exit(2)
try:
    env = dict(os.environ, PYTHONPATH=wt + "/src", VC_REPO=wt)
    rc, out = run(["/venv/bin/python", os.path.join(d, "demo.py")], env=env)
    print("demo on clean tree: exit", rc)
    rc, out = run(["git", "-C", wt, "apply", os.path.join(d, "patch.diff")])
    if rc != 0:
        print("patch does not apply:", out); sys.exit(2)
    rc, out = run(["/venv/bin/python", "-m", "pytest", "-q", "-p", "no:cacheprovider"], cwd=wt, env=env)
    print("tests with patch:", out.strip().splitlines()[-1])
    rc, out = run(["/venv/bin/python", os.path.join(d, "demo.py")], env=env)
    print("demo with patch: exit", rc, out.strip().splitlines()[-1][:200] if out.strip() else "")
    for p in props:
        rc, out = run(["./check", p, "quick"], cwd="/verif", env=env)
        lines = [l for l in out.strip().splitlines() if not l.startswith("  consequence")]
        print("check %s: exit %d" % (p, rc))
        for l in lines[:8] + lines[-2:]:
            print("   ", l[:260])
finally:
    run(["git", "-C", "/repo", "worktree", "remove", "--force", wt])
    shutil.rmtree(wt, ignore_errors=True)
