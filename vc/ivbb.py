"""Interval branch-and-bound back end (DESIGN 2.4 "ivbb").

Decides  forall x in Box:  pc(x) -> goal(x)  for z3 terms over real variables that contain
transcendental functions (cos, arccos, sqrt, exp, pow, sin), by rigorous interval evaluation
(mpmath.iv, outward rounding) with adaptive bisection.  Every arithmetic operation and
every library call is widened by a relative rounding bound, so that the enclosure also
contains the value the binary64 implementation computes (assumption A3: + - * / correctly
rounded, libm / numpy elementary functions within 4 ulp).
"""
import time
from fractions import Fraction

import mpmath as mp
from mpmath import iv
import z3

iv.dps = 30
mp.mp.dps = 40

def lo(x):
    return mp.make_mpf(x._mpi_[0])


def hi(x):
    return mp.make_mpf(x._mpi_[1])


U = mp.mpf(2) ** -52          # unit round-off (binary64), used as a relative widening
LIBM_ULPS = 4


def widen(x, k=1):
    """enclosure of fl(x) for an operation whose exact result lies in x"""
    m = max(abs(lo(x)), abs(hi(x)))                    # upper bound of |x|
    e = m * U * k + mp.mpf("1e-320")
    return iv.mpf([lo(x) - e, hi(x) + e])


def iv_acos(x):
    lo_ = min(max(lo(x), -1), 1)       # arguments outside [-1, 1] only occur in boxes that the
    hi_ = max(min(hi(x), 1), -1)       # path condition excludes; clamp instead of failing
    # acos is decreasing; evaluate at higher precision and nudge outwards
    with mp.workdps(50):
        a = mp.acos(mp.mpf(hi_)) * (1 - mp.mpf(10) ** -40)
        b = mp.acos(mp.mpf(lo_)) * (1 + mp.mpf(10) ** -40)
    return iv.mpf([a, b])


class Tri:
    TRUE = 1
    FALSE = 0
    UNKNOWN = None


def t_and(vals):
    r = True
    for v in vals:
        if v is False:
            return False
        if v is None:
            r = None
    return r


def t_or(vals):
    r = False
    for v in vals:
        if v is True:
            return True
        if v is None:
            r = None
    return r


def t_not(v):
    return None if v is None else (not v)


class Evaluator:
    def __init__(self, box, float_model=True):
        self.box = box           # name -> iv interval
        self.float_model = float_model
        self.cache = {}

    def num(self, e):
        key = e.get_id()
        r = self.cache.get(key)
        if r is None:
            r = self._num(e)
            self.cache[key] = r
        return r

    def _num(self, e):
        r = self._num2(e)
        return r

    def w(self, x, k=1):
        return widen(x, k) if (self.float_model and self._real) else x

    def _num2(self, e):
        # integer-sorted nodes are exact (Python ints); only real-sorted operations round
        self._real = e.sort().kind() == z3.Z3_REAL_SORT
        if z3.is_rational_value(e) or z3.is_int_value(e):
            if z3.is_int_value(e):
                v = mp.mpf(e.as_long())
                return iv.mpf([v, v])
            fr = Fraction(e.numerator_as_long(), e.denominator_as_long())
            return iv.mpf(fr.numerator) / iv.mpf(fr.denominator)
        k = e.decl().kind()
        ch = e.children()
        if k == z3.Z3_OP_UNINTERPRETED:
            name = e.decl().name()
            if not ch:
                if name == "pi":
                    return iv.pi
                if name in self.box:
                    return self.box[name]
                raise ValueError("ivbb: free variable %s has no box" % name)
            args = [self.num(c) for c in ch]
            self._real = True
            if name == "cos":
                return self.w(iv.cos(args[0]), LIBM_ULPS)
            if name == "sin":
                return self.w(iv.sin(args[0]), LIBM_ULPS)
            if name == "exp":
                return self.w(iv.exp(args[0]), LIBM_ULPS)
            if name == "sqrt":
                x = args[0]
                x = iv.mpf([max(lo(x), 0), max(hi(x), 0)])
                return self.w(iv.sqrt(x), 1)
            if name == "arccos":
                return self.w(iv_acos(args[0]), LIBM_ULPS)
            if name == "pow":
                x, y = args
                if lo(x) <= 0:
                    raise ValueError("ivbb: pow with non-positive base")
                return self.w(iv.exp(y * iv.log(x)), LIBM_ULPS)
            raise ValueError("ivbb: unknown function %s" % name)
        isreal = e.sort().kind() == z3.Z3_REAL_SORT
        if k == z3.Z3_OP_ADD:
            r = self.num(ch[0])
            for c in ch[1:]:
                v = self.num(c)
                self._real = isreal
                r = self.w(r + v)
            return r
        if k == z3.Z3_OP_SUB:
            r = self.num(ch[0])
            for c in ch[1:]:
                v = self.num(c)
                self._real = isreal
                r = self.w(r - v)
            return r
        if k == z3.Z3_OP_UMINUS:
            return -self.num(ch[0])
        if k == z3.Z3_OP_MUL:
            r = self.num(ch[0])
            for c in ch[1:]:
                v = self.num(c)
                self._real = isreal
                r = self.w(r * v)
            return r
        if k == z3.Z3_OP_DIV:
            a, b = self.num(ch[0]), self.num(ch[1])
            if lo(b) <= 0 <= hi(b):
                raise ZeroDivisionError("ivbb: division by an interval containing 0")
            self._real = True
            return self.w(a / b)
        if k == z3.Z3_OP_TO_REAL:
            return self.num(ch[0])
        if k == z3.Z3_OP_TO_INT:
            x = self.num(ch[0])
            return iv.mpf([mp.floor(lo(x)), mp.floor(hi(x))])
        if k == z3.Z3_OP_ITE:
            c = self.boolean(ch[0])
            if c is True:
                return self.num(ch[1])
            if c is False:
                return self.num(ch[2])
            a, b = self.num(ch[1]), self.num(ch[2])
            return iv.mpf([min(lo(a), lo(b)), max(hi(a), hi(b))])
        if k == z3.Z3_OP_IDIV or k == z3.Z3_OP_MOD:
            raise ValueError("ivbb: integer div/mod not supported")
        raise ValueError("ivbb: unsupported numeric node %s" % e.decl().name())

    def boolean(self, e):
        key = ("b", e.get_id())
        if key in self.cache:
            return self.cache[key]
        r = self._boolean(e)
        self.cache[key] = r
        return r

    def _boolean(self, e):
        if z3.is_true(e):
            return True
        if z3.is_false(e):
            return False
        k = e.decl().kind()
        ch = e.children()
        if k == z3.Z3_OP_AND:
            return t_and([self.boolean(c) for c in ch])
        if k == z3.Z3_OP_OR:
            return t_or([self.boolean(c) for c in ch])
        if k == z3.Z3_OP_NOT:
            return t_not(self.boolean(ch[0]))
        if k == z3.Z3_OP_IMPLIES:
            return t_or([t_not(self.boolean(ch[0])), self.boolean(ch[1])])
        if k == z3.Z3_OP_ITE:
            c = self.boolean(ch[0])
            if c is True:
                return self.boolean(ch[1])
            if c is False:
                return self.boolean(ch[2])
            a, b = self.boolean(ch[1]), self.boolean(ch[2])
            return a if a == b and a is not None else None
        if k in (z3.Z3_OP_LE, z3.Z3_OP_LT, z3.Z3_OP_GE, z3.Z3_OP_GT):
            a, b = self.num(ch[0]), self.num(ch[1])
            if k == z3.Z3_OP_GE:
                a, b, k = b, a, z3.Z3_OP_LE
            if k == z3.Z3_OP_GT:
                a, b, k = b, a, z3.Z3_OP_LT
            if k == z3.Z3_OP_LE:
                if hi(a) <= lo(b):
                    return True
                if lo(a) > hi(b):
                    return False
                return None
            if hi(a) < lo(b):
                return True
            if lo(a) >= hi(b):
                return False
            return None
        if k == z3.Z3_OP_EQ:
            if z3.is_bool(ch[0]):
                a, b = self.boolean(ch[0]), self.boolean(ch[1])
                if a is None or b is None:
                    return None
                return a == b
            a, b = self.num(ch[0]), self.num(ch[1])
            if lo(a) == hi(a) == lo(b) == hi(b):
                return True
            if hi(a) < lo(b) or hi(b) < lo(a):
                return False
            return None
        if k == z3.Z3_OP_DISTINCT:
            a, b = self.num(ch[0]), self.num(ch[1])
            if hi(a) < lo(b) or hi(b) < lo(a):
                return True
            if lo(a) == hi(a) == lo(b) == hi(b):
                return False
            return None
        if k == z3.Z3_OP_UNINTERPRETED and not ch:
            raise ValueError("ivbb: boolean variable %s" % e.decl().name())
        raise ValueError("ivbb: unsupported boolean node %s" % e.decl().name())


def prove(pc, goal, boxes, min_width=1e-12, max_boxes=400000, budget_s=120, float_model=True):
    """-> (status, info): status in proved / refuted / unknown
    boxes: {var name: (lo, hi)} (python numbers / Fractions)"""
    t0 = time.time()
    names = sorted(boxes)
    start = {n: iv.mpf([mp.mpf(Fraction(boxes[n][0]).numerator) / Fraction(boxes[n][0]).denominator,
                        mp.mpf(Fraction(boxes[n][1]).numerator) / Fraction(boxes[n][1]).denominator]) for n in names}
    stack = [start]
    nboxes = 0
    undecided = []
    pcs = [c for c in pc]
    while stack:
        box = stack.pop()
        nboxes += 1
        if nboxes > max_boxes or time.time() - t0 > budget_s:
            return "unknown", {"reason": "budget", "boxes": nboxes, "undecided": undecided[:5]}
        ev = Evaluator(box, float_model)
        vals = []
        try:
            for c in pcs:
                try:
                    vals.append(ev.boolean(c))
                except ZeroDivisionError:
                    vals.append(None)
        except ValueError as e:
            return "unknown", {"reason": str(e), "boxes": nboxes}
        p = t_and(vals)
        if p is False:
            continue
        try:
            g = ev.boolean(goal)
        except ZeroDivisionError:
            g = None
        except ValueError as e:
            return "unknown", {"reason": str(e), "boxes": nboxes}
        if g is True:
            continue
        if g is False and p is True:
            mid = {n: mp.nstr((lo(box[n]) + hi(box[n])) / 2, 25, min_fixed=-40, max_fixed=40) for n in names}
            return "refuted", {"witness": mid, "boxes": nboxes}
        # bisect the widest variable
        wn = max(names, key=lambda n: hi(box[n]) - lo(box[n]))
        wdt = hi(box[wn]) - lo(box[wn])
        if wdt <= min_width:
            undecided.append({n: (mp.nstr(lo(box[n]), 20), mp.nstr(hi(box[n]), 20)) for n in names})
            if len(undecided) > 50:
                return "unknown", {"reason": "too many undecided boxes", "boxes": nboxes, "undecided": undecided[:5]}
            continue
        m = (lo(box[wn]) + hi(box[wn])) / 2
        b1 = dict(box)
        b2 = dict(box)
        b1[wn] = iv.mpf([lo(box[wn]), m])
        b2[wn] = iv.mpf([m, hi(box[wn])])
        stack.append(b1)
        stack.append(b2)
    if undecided:
        return "unknown", {"reason": "undecided boxes at minimum width", "boxes": nboxes, "undecided": undecided[:10],
                           "n_undecided": len(undecided)}
    return "proved", {"boxes": nboxes, "seconds": round(time.time() - t0, 3)}
