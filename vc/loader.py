"""Loads the repository source *text* (every run) and the sidecar spec/contract modules,
resolving imports the way CPython binds them.  Nothing is copied or hand-translated.

Dropped by extraction (DESIGN 2.1): docstrings, comments, type annotations, __future__
imports, warnings.warn()/simplefilter() calls, print() output, and the value of
time.time() (a fresh real).
"""
import ast
import os

from .values import *  # noqa
from .interp import (Engine, Env, ModuleValue, StubModule, Builtin, PyExc, ClassValue, FuncValue,
                     ExcClass)
from . import builtins_model as BM

REPO = os.environ.get("VC_REPO", "/repo")
VERIF = os.path.dirname(os.path.dirname(os.path.abspath(__file__)))


# in-memory canary mutations [(path suffix, old, new)]: applied to the source *text* after
# reading, never to /repo (DESIGN 2.5 iv)
MUTATIONS = []


class TypingStub(Sym):
    """typing objects: subscripting, calling, | all return a stub"""

    def __repr__(self):
        return "<typing stub>"


TYPING = TypingStub()


class UnknownModule(StubModule):
    """external module without a model: every member is an UnknownMember"""

    def __init__(self, name):
        StubModule.__init__(self, name, _AnyMember(name))


class _AnyMember(dict):
    def __init__(self, modname):
        dict.__init__(self)
        self.modname = modname

    def __contains__(self, k):
        return True

    def __getitem__(self, k):
        name = self.modname + "." + k
        return Builtin(name, Loader._unsupported("call of %s (external module without a model)" % name))


def _stub_call(E, a, k):
    return TYPING


def _fraction(E, a, k):
    from fractions import Fraction
    vals = [E.force(x) for x in a]
    for v in vals:
        if isinstance(v, Sym):
            raise Unsupported("Fraction() of symbolic value")
    return Fraction(*vals)


class Loader:
    def __init__(self, common_impl="py", repo=None):
        self.repo = repo or REPO
        self.pkg_root = os.path.join(self.repo, "src")
        self.common_impl = common_impl
        self.modules = {}
        self.builtins = BM.make_builtins()
        self.engine = None
        self.stubs = self.make_stubs()
        self.loading = []
        self.files_read = {}

    # ------------------------------------------------------------------ stubs
    def make_stubs(self):
        noop = Builtin("noop", lambda E, a, k: None)
        typing = StubModule("typing", {n: TYPING for n in
                                       ["Optional", "List", "Tuple", "Callable", "Any", "Dict", "Union",
                                        "TypedDict"]})
        typing.members["TypeVar"] = Builtin("TypeVar", _stub_call)
        ospath = StubModule("os.path", {
            "dirname": Builtin("dirname", lambda E, a, k: ""),
            "realpath": Builtin("realpath", lambda E, a, k: ""),
            "isdir": Builtin("isdir", lambda E, a, k: False),
        })
        stubs = {
            "numpy": BM.make_numpy(),
            "math": BM.make_math(),
            "bisect": BM.make_bisect(),
            "typing": typing,
            "typing_extensions": typing,
            "textwrap": StubModule("textwrap", {"wrap": Builtin("wrap", BM.b_wrap)}),
            "warnings": StubModule("warnings", {"warn": noop, "simplefilter": noop}),
            "os": StubModule("os", {"path": ospath, "_exit": Builtin("_exit", self._unsupported("os._exit"))}),
            "sys": StubModule("sys", {"version_info": (3, 12, 1), "argv": ()}),
            "time": StubModule("time", {"time": Builtin("time.time", BM.time_time), "sleep": noop}),
            "datetime": StubModule("datetime", {"datetime": TYPING}),
            "traceback": StubModule("traceback", {"format_exc": Builtin("format_exc", lambda E, a, k: "")}),
            "csv": StubModule("csv", {}),
            "zmq": StubModule("zmq", {"error": StubModule("zmq.error", {"Again": ExcClass("Again")})}),
            "signal": StubModule("signal", {}),
            "fractions": StubModule("fractions", {"Fraction": Builtin("Fraction", _fraction)}),
            "vc_pyx_runtime": BM.make_pyx_runtime(),
        }
        return stubs

    @staticmethod
    def _unsupported(what):
        def f(E, a, k):
            raise Unsupported(what)
        return f

    # ------------------------------------------------------------------ engine for module bodies
    def module_engine(self):
        if self.engine is None:
            self.engine = Engine(self)
            from .solver import PathSolver
            self.engine.ps = PathSolver()
        return self.engine

    # ------------------------------------------------------------------ import machinery
    def import_module(self, name, current, level):
        if level:
            base = current.package.split(".") if current.package else []
            if level > 1:
                base = base[: len(base) - (level - 1)]
            full = ".".join(base + ([name] if name else []))
        else:
            full = name
        return self.load(full)

    def import_from(self, mod, name):
        if isinstance(mod, ModuleValue):
            if name in mod.globals:
                return mod.globals[name]
            sub = self.try_submodule(mod, name)
            if sub is not None:
                return sub
            raise PyExc("ImportError", "cannot import name %s from %s" % (name, mod.name))
        if isinstance(mod, StubModule):
            if name in mod.members:
                return mod.members[name]
            raise Unsupported("from %s import %s: not modelled" % (mod.name, name))
        raise Unsupported("import from %r" % (mod,))

    def try_submodule(self, mod, name):
        if not mod.is_package:
            return None
        full = mod.name + "." + name
        if full in self.modules:
            return self.modules[full]
        if self.find(full) is None:
            return None
        return self.load(full)

    def find(self, full):
        """-> (path, is_package, kind) or None"""
        parts = full.split(".")
        roots = []
        if parts[0] == "pyModeS":
            roots.append(self.pkg_root)
        elif parts[0] in ("spec", "contracts", "vc"):
            roots.append(VERIF)
        for root in roots:
            base = os.path.join(root, *parts)
            if os.path.isdir(base) and os.path.isfile(os.path.join(base, "__init__.py")):
                return os.path.join(base, "__init__.py"), True, "py"
            if os.path.isfile(base + ".py"):
                return base + ".py", False, "py"
            if os.path.isfile(base + ".pyx"):
                return base + ".pyx", False, "pyx"
        return None

    def load(self, full):
        if full in self.modules:
            return self.modules[full]
        top = full.split(".")[0]
        if full in self.stubs:
            return self.stubs[full]
        if top in self.stubs:
            # dotted stub
            m = self.stubs[top]
            for p in full.split(".")[1:]:
                m = m.members[p]
            return m
        if full == "vc.api":
            return self.api_module()
        if full == "pyModeS.c_common" and self.common_impl != "c":
            raise PyExc("ImportError", "c_common not selected in this configuration")
        found = self.find(full)
        if found is None:
            if top in ("pyModeS", "spec", "contracts"):
                raise PyExc("ImportError", "No module named " + full)
            if top == "rtlsdr":
                raise PyExc("ImportError", "No module named rtlsdr")
            # unknown external module: importing it is fine, *using* a member is outside the
            # modelled subset (the obligations on the paths that do so become undecided and are
            # handed to the bounded stand-in; everything else is unaffected)
            m = self.stubs.get(full)
            if m is None:
                m = UnknownModule(full)
                self.stubs[full] = m
            return m
        # parents first
        if "." in full:
            self.load(full.rsplit(".", 1)[0])
            if full in self.modules:
                return self.modules[full]
        path, is_pkg, kind = found
        with open(path) as f:
            text = f.read()
        for (suffix, old, new) in MUTATIONS:
            if path.endswith(suffix):
                if old not in text:
                    raise RuntimeError("canary mutation does not apply: %r in %s" % (old, path))
                text = text.replace(old, new, 1)
        self.files_read[path] = text
        if kind == "pyx":
            from .pyx2py import pyx_to_python
            text = pyx_to_python(text)
        tree = ast.parse(text, filename=path)
        mod = ModuleValue(full, path)
        mod.is_package = is_pkg
        mod.package = full if is_pkg else full.rsplit(".", 1)[0] if "." in full else ""
        self.modules[full] = mod
        mod.globals["__name__"] = full
        mod.globals["__file__"] = path
        mod.globals["__module_value__"] = mod
        mod.globals["__qualname__"] = full
        env = Env(None)
        env.vars = mod.globals
        E = self.module_engine()
        self.loading.append(full)
        try:
            for stmt in tree.body:
                try:
                    E.exec_stmt(stmt, env)
                except (Unsupported, PyExc, RecursionError, AttributeError, TypeError, KeyError, IndexError,
                        ValueError, AssertionError, NotImplementedError) as ex:
                    if isinstance(stmt, (ast.Import, ast.ImportFrom)) or top in ("spec", "contracts", "vc"):
                        raise
                    # a module-level statement outside the subset (or failing in the model): poison the names it
                    # binds instead of giving up on the whole module
                    from .interp import Poison
                    reason = "%s line %d: %s: %s" % (os.path.basename(path), getattr(stmt, "lineno", 0),
                                                     type(ex).__name__, str(ex)[:120])
                    names = set()
                    if isinstance(stmt, (ast.FunctionDef, ast.ClassDef)):
                        names.add(stmt.name)
                    for n in ast.walk(stmt):
                        if isinstance(n, ast.Name) and isinstance(n.ctx, ast.Store):
                            names.add(n.id)
                    if isinstance(stmt, (ast.FunctionDef, ast.ClassDef)):
                        names = {stmt.name}
                    for n in names:
                        mod.globals[n] = Poison(reason)
        finally:
            self.loading.pop()
        if "." in full:
            parent = self.modules.get(full.rsplit(".", 1)[0])
            if parent is not None:
                parent.globals.setdefault(full.rsplit(".", 1)[1], mod)
        return mod

    def api_module(self):
        from . import api_sym
        if "vc.api" not in self.modules:
            m = ModuleValue("vc.api")
            m.package = "vc"
            m.globals.update(api_sym.members())
            self.modules["vc.api"] = m
        return self.modules["vc.api"]

    def function(self, qualname):
        """look up 'pyModeS.py_common.crc' -> FuncValue"""
        parts = qualname.split(".")
        for i in range(len(parts), 0, -1):
            name = ".".join(parts[:i])
            try:
                mod = self.load(name)
            except (PyExc, Unsupported):
                continue
            obj = mod
            ok = True
            for p in parts[i:]:
                if isinstance(obj, ModuleValue):
                    if p not in obj.globals:
                        ok = False
                        break
                    obj = obj.globals[p]
                elif isinstance(obj, ClassValue):
                    obj = obj.lookup(p)
                    if obj is None:
                        ok = False
                        break
                else:
                    ok = False
                    break
            if ok:
                return obj
        raise KeyError(qualname)
