"""C20 - standard-atmosphere and airspeed conversions are consistent."""
from vc.api import (harness, contract, repo, outcome, assume, close, RealRange, Choice, NATIVE_ABSTRACT)
from spec import isa_spec

AERO = repo("pyModeS.extra.aero")
A = "pyModeS.extra.aero."
ATMOS = [A + n for n in ("atmos", "temperature", "pressure", "density", "vsound")]

# native (binary64) tolerance of the round trips, relative to max(1, |value|): exact equality in the VC generator.
# The compressible-flow formulas subtract nearly equal numbers at low speed ((1 + q/p)**(2/7) - 1 with q/p ~ 1e-6
# at 0.5 m/s), which costs up to ~3e-9 in the round trip; 1e-9 was a false alarm of the thorough cross-check.
RT_TOL = 1e-7


@harness("C20", inputs={"H": RealRange(-500, 20000)}, functions=ATMOS, body_of=ATMOS, idealised=True, backend="ivbb",
         timeout={"quick": 120000, "thorough": 600000},
         note="interval branch and bound over the whole altitude range, both layers, rounding model A3")
def isa_within_tolerance(H):
    p, rho, T = AERO.atmos(H)
    ps, rs, ts = isa_spec.pressure(H), isa_spec.density(H), isa_spec.temperature(H)
    assert T > 0 and rho > 0 and p > 0, "temperature, density and pressure are positive on [-500 m, 20 km]"
    assert T - ts <= 0.001 * ts and ts - T <= 0.001 * ts, "temperature within 0.1 % of ISA"
    assert p - ps <= 0.001 * ps and ps - p <= 0.001 * ps, "pressure within 0.1 % of ISA"
    assert rho - rs <= 0.001 * rs and rs - rho <= 0.001 * rs, "density within 0.1 % of ISA"


@harness("C20", inputs={"d": RealRange(0, 0.5)}, functions=ATMOS, idealised=True, backend="ivbb")
def isa_continuous_at_tropopause(d):
    p1, r1, t1 = AERO.atmos(11000 - d)
    p2, r2, t2 = AERO.atmos(11000 + d)
    assert t1 - t2 <= 0.01 and t2 - t1 <= 0.01, "temperature continuous at 11 km"
    assert p1 - p2 <= 0.0002 * p1 * (d + 0.001) * 1000 and p2 - p1 <= 0.0002 * p1 * (d + 0.001) * 1000, \
        "pressure continuous at 11 km (no jump larger than the local gradient)"
    assert r1 - r2 <= 0.0002 * r1 * (d + 0.001) * 1000 and r2 - r1 <= 0.0002 * r1 * (d + 0.001) * 1000, \
        "density continuous at 11 km"


@harness("C20", inputs={"V": RealRange(0.5, 450), "H": RealRange(-500, 20000)}, idealised=True, uf_axioms=True,
         functions=[A + "tas2mach", A + "mach2tas"], body_of=[A + "tas2mach", A + "mach2tas"])
def tas_mach_inverse(V, H):
    assert close(AERO.mach2tas(AERO.tas2mach(V, H), H), V, RT_TOL), "mach2tas(tas2mach(V)) == V"
    m = V / 340
    assert close(AERO.tas2mach(AERO.mach2tas(m, H), H), m, RT_TOL), "tas2mach(mach2tas(M)) == M"


@harness("C20", inputs={"V": RealRange(0.5, 450), "H": RealRange(-500, 20000)}, idealised=True, uf_axioms=True,
         functions=[A + "tas2eas", A + "eas2tas"], body_of=[A + "tas2eas", A + "eas2tas"])
def tas_eas_inverse(V, H):
    assert close(AERO.eas2tas(AERO.tas2eas(V, H), H), V, RT_TOL), "eas2tas(tas2eas(V)) == V"
    assert close(AERO.tas2eas(AERO.eas2tas(V, H), H), V, RT_TOL), "tas2eas(eas2tas(V)) == V"


@harness("C20", inputs={"V": RealRange(0.5, 450), "H": RealRange(-500, 20000)}, idealised=True, uf_axioms=True,
         functions=[A + "tas2cas", A + "cas2tas"], body_of=[A + "tas2cas", A + "cas2tas"],
         timeout={"quick": 60000, "thorough": 600000})
def tas_cas_inverse(V, H):
    assert close(AERO.cas2tas(AERO.tas2cas(V, H), H), V, RT_TOL), "cas2tas(tas2cas(V)) == V"


@harness("C20", inputs={"V": RealRange(0.5, 450), "H": RealRange(-500, 20000)}, idealised=True, uf_axioms=True,
         functions=[A + "tas2cas", A + "cas2tas"], body_of=[A + "tas2cas", A + "cas2tas"],
         timeout={"quick": 60000, "thorough": 600000})
def cas_tas_inverse(V, H):
    assert close(AERO.tas2cas(AERO.cas2tas(V, H), H), V, RT_TOL), "tas2cas(cas2tas(V)) == V"


@harness("C20", inputs={"V1": RealRange(0.5, 450), "V2": RealRange(0.5, 450), "H": RealRange(-500, 20000),
                         "name": Choice("tas2mach", "mach2tas", "tas2eas", "eas2tas", "tas2cas", "cas2tas")},
         idealised=True, uf_axioms=True, timeout={"quick": 60000, "thorough": 600000})
def conversions_strictly_increasing(V1, V2, H, name):
    assume(V1 < V2)
    f = getattr(AERO, name)
    assert f(V1, H) < f(V2, H), "conversion strictly increasing in speed"


@harness("C20", inputs={"lat1": RealRange(-90, 90), "lon1": RealRange(-180, 180), "lat2": RealRange(-90, 90),
                         "lon2": RealRange(-180, 180)}, idealised=True, uf_axioms=True,
         functions=[A + "distance", A + "bearing"], body_of=[A + "distance", A + "bearing"])
def distance_symmetric_bearing_range(lat1, lon1, lat2, lon2):
    assert close(AERO.distance(lat1, lon1, lat2, lon2), AERO.distance(lat2, lon2, lat1, lon1), 1e-7), "distance is symmetric"
    b = AERO.bearing(lat1, lon1, lat2, lon2)
    assert 0 <= b and b < 360, "bearing lies in [0, 360)"


def _haversine(lat1, lon1, lat2, lon2):
    import math
    p1, p2 = math.radians(lat1), math.radians(lat2)
    dp, dl = p2 - p1, math.radians(lon2 - lon1)
    a = math.sin(dp / 2) ** 2 + math.cos(p1) * math.cos(p2) * math.sin(dl / 2) ** 2
    return 2 * 6371000 * math.asin(min(1.0, math.sqrt(a)))


@harness("C20", inputs={"lat1": RealRange(-90, 90), "lon1": RealRange(-180, 180), "lat2": RealRange(-90, 90),
                         "lon2": RealRange(-180, 180)}, kind="bounded", functions=[A + "distance"],
         note="agreement with the haversine formula is a 4-dimensional numeric identity, ill-conditioned for short arcs "
              "(acos near 1): sampled natively with 1 m + 1e-6 relative tolerance")
def distance_matches_haversine(lat1, lon1, lat2, lon2):
    d = float(AERO.distance(lat1, lon1, lat2, lon2))
    h = _haversine(lat1, lon1, lat2, lon2)
    assert abs(d - h) <= 1.0 + 1e-6 * h, "great-circle distance agrees with haversine"


@harness("C20", inputs={"V": RealRange(0.5, 450), "H": RealRange(0, 20000)}, kind="bounded",
         functions=[A + "tas2cas", A + "tas2eas", A + "cas2tas", A + "mach2cas", A + "cas2mach"],
         note="sea-level equalities (to 1e-6 relative: p(0) = 101324.9985, not p0) and the orderings TAS >= EAS, "
              "CAS >= EAS; scalar and numpy-array arguments; mach<->cas inverse")
def airspeed_orderings(V, H):
    import numpy as np
    cas0, eas0 = float(AERO.tas2cas(V, 0)), float(AERO.tas2eas(V, 0))
    assert abs(cas0 - V) <= 1e-6 * V and abs(eas0 - V) <= 1e-6 * V, "CAS = EAS = TAS at sea level"
    eas, cas = float(AERO.tas2eas(V, H)), float(AERO.tas2cas(V, H))
    # same 1e-6 relative tolerance as the sea-level equalities: at H = 0 the three speeds coincide up to the
    # 1.5e-8 mismatch between p0 and rho0*R*T0, so the orderings are equalities there
    assert V >= eas * (1 - 1e-6) and cas >= eas * (1 - 1e-6), "TAS >= EAS and CAS >= EAS at altitude"
    m = V / 340.0
    assert abs(float(AERO.cas2mach(AERO.mach2cas(m, H), H)) - m) <= 1e-9, "cas2mach(mach2cas(M)) == M"
    arr = AERO.tas2cas(np.array([V, V / 2]), np.array([H, H]))
    assert abs(float(arr[0]) - cas) <= 1e-9 * cas, "array arguments act elementwise"
    # frame condition on array arguments (after seed C20-5, an identity-keyed cache of the last atmos() result): the
    # result depends on the array's current contents, not on an earlier call that was handed the same array object
    Harr = np.array([H, H])
    AERO.tas2cas(np.array([V, V / 2]), Harr)
    AERO.atmos(Harr)
    Harr[:] = 0.0
    again = AERO.tas2cas(np.array([V, V / 2]), Harr)
    assert abs(float(again[0]) - V) <= 1e-6 * V, "an array modified in place and passed again is decoded afresh"
    p_again = AERO.atmos(Harr)[0]
    assert abs(float(p_again[0]) - 101325.0) <= 1.0, "atmos() of a reused array object reflects its current contents"


@harness("C20", inputs={"M": RealRange(0.001, 1.3), "H": RealRange(-500, 20000)}, idealised=True, uf_axioms=True,
         functions=[A + "mach2cas", A + "cas2mach"], body_of=[A + "mach2cas", A + "cas2mach", A + "tas2cas", A + "cas2tas",
                                                             A + "tas2mach", A + "mach2tas"],
         timeout={"quick": 60000, "thorough": 600000})
def mach_cas_inverse(M, H):
    assert close(AERO.cas2mach(AERO.mach2cas(M, H), H), M, RT_TOL), "cas2mach(mach2cas(M)) == M"


# TAS >= EAS at altitude, deductively in two steps (the compressible CAS >= EAS ordering stays bounded):
#   (a) density(H) <= rho0 * (1 + 1e-6) for 0 <= H <= 20 km          - interval branch and bound on the real atmos()
#   (b) tas2eas(V, H) <= V * (1 + 1e-6) whenever density(H) is at most that - z3 over the executed body of tas2eas,
#       sqrt uninterpreted with the instances sqrt(x)^2 = x, sqrt >= 0
@harness("C20", inputs={"H": RealRange(0, 20000)}, functions=[A + "density", A + "atmos"], body_of=ATMOS, idealised=True,
         backend="ivbb", timeout={"quick": 120000, "thorough": 600000})
def density_at_most_sea_level(H):
    assert AERO.density(H) <= 1.225 * (1 + 0.000001), "air density at altitude does not exceed the sea-level density"


def density_bounded_contract(H):
    from vc.api import require, abstract_real
    require(0 <= H and H <= 20000, "density: altitude between sea level and 20 km")
    # lemma (a): some real in (0, rho0 (1 + 1e-6)] determined by H
    return abstract_real("density", 0.0001, 1.225 * (1 + 0.000001), H)


@harness("C20", inputs={"V": RealRange(0.5, 450), "H": RealRange(0, 20000)}, functions=[A + "tas2eas"],
         body_of=[A + "tas2eas"], idealised=True, uf_axioms=True, overrides={A + "density": density_bounded_contract},
         native_optional=True)
def tas_at_least_eas(V, H):
    e = AERO.tas2eas(V, H)
    assert e <= V * (1 + 0.000001), "TAS >= EAS at altitude (to the 1e-6 of the sea-level constants)"
    assert e > 0, "EAS is positive"


NATIVE_ABSTRACT["density"] = lambda H: float(AERO.density(H))
