"""Native side: run harnesses on concrete inputs with the *real* pyModeS under CPython.

Usage (always under /venv/bin/python, PYTHONPATH=/verif):
  python -m vc.native replay <harness-id> <inputs.json>      -> one JSON line
  python -m vc.native sample <harness-id> <n> <seed> [exh]   -> JSON summary
Used for: replay of solver counterexamples, the CPython cross-check of proved
obligations, and the bounded stand-in for undecided ones.
"""
import importlib
import itertools
import json
import os
import random
import sys
import traceback
from fractions import Fraction

sys.path.insert(0, os.path.dirname(os.path.dirname(os.path.abspath(__file__))))
from vc import api  # noqa

CONTRACT_MODULES = None


def load_all():
    global CONTRACT_MODULES
    if CONTRACT_MODULES is None:
        d = os.path.join(os.path.dirname(os.path.dirname(os.path.abspath(__file__))), "contracts")
        names = sorted(f[:-3] for f in os.listdir(d) if f.endswith(".py") and f != "__init__.py")
        CONTRACT_MODULES = [importlib.import_module("contracts." + n) for n in names]
    return api.HARNESSES


def decode_value(v):
    if isinstance(v, dict) and "frac" in v:
        return float(Fraction(v["frac"]))
    if isinstance(v, list):
        return [decode_value(x) for x in v]
    return v


def encode_value(v):
    if isinstance(v, float):
        return {"frac": str(Fraction(v))}
    if isinstance(v, Fraction):
        return {"frac": str(v)}
    return v


def run_one(h, inputs):
    """-> (status, detail): pass | fail | skip | error"""
    try:
        h.fn(**inputs)
        return "pass", ""
    except api.AssumptionFailed:
        return "skip", ""
    except AssertionError as e:
        return "fail", "AssertionError: %s" % (e,)
    except Exception as e:  # exception escaping the harness: the real code raised
        return "fail", "%s: %s" % (type(e).__name__, e)


def cmd_replay(hid, path):
    hs = load_all()
    h = hs[hid]
    data = json.load(open(path))
    inputs = {k: decode_value(v) for k, v in data["inputs"].items()}
    st, detail = run_one(h, inputs)
    print(json.dumps({"status": st, "detail": detail}))


def gen_inputs(h, n, seed, case):
    rng = random.Random(seed)
    fixed = {}
    doms = {}
    for k, d in h.inputs.items():
        if k in case:
            kind, v = case[k]
            if kind == "choice":
                fixed[k] = v
            else:
                doms[k] = type(d)(v, d.case) if isinstance(d, api.HexStr) else type(d)(v)
        else:
            doms[k] = d
    # exhaustive when the product of the finite domains is small
    sizes = []
    for d in doms.values():
        sz = getattr(d, "size", None)
        sizes.append(sz() if sz else None)
    total = 1
    for s in sizes:
        total = total * s if (s is not None and total is not None) else None
    if total is not None and total <= n:
        keys = list(doms)
        for combo in itertools.product(*[list(doms[k].enumerate()) for k in keys]):
            d = dict(zip(keys, combo))
            d.update(fixed)
            yield d, True
        return
    while True:     # the consumer stops after n accepted cases or the attempt budget
        d = {k: dom.sample(rng) for k, dom in doms.items()}
        d.update(fixed)
        if h.sampler is not None:
            d.update(h.sampler(rng, dict(fixed)))
        yield d, False


def cmd_sample(hid, n, seed, fixed_json, exclude=()):
    hs = load_all()
    h = hs[hid]
    fixed = json.loads(fixed_json)
    mod = sys.modules[h.fn.__module__]
    region_fns = [getattr(mod, r) for r in exclude]
    nknown = 0
    npass = nskip = 0
    fails = []
    exhaustive = False
    first = None
    attempts = 0
    import os as _os
    import time as _time
    t_begin = _time.time()
    wall = float(_os.environ.get("VC_SAMPLE_SECONDS", "0") or 0)
    timed_out = False
    for inputs, exh in gen_inputs(h, n, seed, fixed):
        exhaustive = exh
        attempts += 1
        if not exh and (npass >= n or attempts > 60 * n):
            break
        if wall and _time.time() - t_begin > wall:
            # wall-clock budget of one sampling call (rejection sampling with rarely satisfied assumptions)
            timed_out = True
            exhaustive = False
            break
        if region_fns:
            try:
                if any(rf(**inputs) for rf in region_fns):
                    nknown += 1
                    continue
            except api.AssumptionFailed:
                pass
        st, detail = run_one(h, inputs)
        if first is None and st == "pass":
            first = {k: encode_value(v) for k, v in inputs.items()}
        if st == "pass":
            npass += 1
        elif st == "skip":
            nskip += 1
        else:
            if len(fails) < 5:
                fails.append({"inputs": {k: encode_value(v) for k, v in inputs.items()}, "detail": detail})
            if len(fails) >= 5:
                break
    print(json.dumps({"pass": npass, "skip": nskip, "fails": fails, "exhaustive": exhaustive,
                      "sample": first, "in_known_regions": nknown, "timed_out": timed_out,
                      "attempts": attempts}))


def main():
    try:
        if sys.argv[1] == "replay":
            cmd_replay(sys.argv[2], sys.argv[3])
        elif sys.argv[1] == "sample":
            cmd_sample(sys.argv[2], int(sys.argv[3]), int(sys.argv[4]),
                       sys.argv[5] if len(sys.argv) > 5 else "{}",
                       json.loads(sys.argv[6]) if len(sys.argv) > 6 else ())
        else:
            raise SystemExit("usage")
    except Exception:
        print(json.dumps({"status": "error", "detail": traceback.format_exc()}))
        sys.exit(3)


if __name__ == "__main__":
    main()
