"""Models of the Python builtins, string methods, numpy / math members used by pyModeS.

Everything here is assumption A1 ("Python semantics as modelled"); the self-test and the
per-run CPython cross-check exercise these models differentially against CPython.
"""
from fractions import Fraction
import math
import z3

from . import bits as B
from .values import *  # noqa
from . import values as V
from .interp import (PyExc, Builtin, ExcClass, FuncValue, BoundMethod, ClassValue, Iterator,
                     StubModule, ModuleValue, UNBOUND, ExcValue, MergeAbort)


# ---------------------------------------------------------------------------------------
# helper value kinds local to the builtin models


class BinRepr(Sym):
    """result of bin(x) for a non-negative symbolic x (a string '0b....')"""

    def __init__(self, val):
        self.val = val


class BinDigits(Sym):
    """bin(x)[2:] : minimal-length binary digits of x"""

    def __init__(self, val):
        self.val = val


class TypeObj:
    def __init__(self, name):
        self.name = name

    def __repr__(self):
        return "<type %s>" % self.name


class NDArray(Sym):
    """1-d numpy array of concrete length (only what bds.infer / is50or60 need)"""

    def __init__(self, items):
        self.items = list(items)


# ---------------------------------------------------------------------------------------
# uninterpreted real functions (transcendentals)

_UF = {}


def uf(E, name, *args):
    f = _UF.get((name, len(args)))
    if f is None:
        f = z3.Function(name, *([z3.RealSort()] * (len(args) + 1)))
        _UF[(name, len(args))] = f
    E.trusted.add("uninterpreted real function %s" % name)
    targs = [to_real(a) for a in args]
    r = f(*targs)
    if getattr(E, "uf_axioms", False) and E.ps is not None:
        _instantiate_axioms(E, name, f, targs, r)
    return SReal(r)


def _instantiate_axioms(E, name, f, targs, r):
    """ground instances of the defining properties of sqrt / pow / exp / cos on the terms at hand
    (assumption list of C20: each instance is a true statement about the real function)"""
    key = (name, tuple(t.get_id() for t in targs))
    seen = E.__dict__.setdefault("_uf_seen", {})
    if seen.get("ps") is not E.ps:
        seen.clear()
        seen["ps"] = E.ps
        seen["apps"] = {}
    if key in seen:
        return
    seen[key] = True
    apps = seen["apps"].setdefault(name, [])
    ax = []
    if name == "sqrt":
        x = targs[0]
        ax.append(z3.Implies(x >= 0, z3.And(r >= 0, r * r == x)))
        ax.append(z3.Implies(x > 0, r > 0))
        for (pargs, pr) in apps:
            ax.append(z3.Implies(z3.And(pargs[0] >= 0, pargs[0] < x), pr < r))
            ax.append(z3.Implies(z3.And(x >= 0, x < pargs[0]), r < pr))
            ax.append(z3.Implies(x == pargs[0], r == pr))
        E.trusted.add("axiom instances: sqrt(x)^2 = x, sqrt(x) >= 0, sqrt strictly increasing")
    elif name == "pow":
        x, y = targs
        ax.append(z3.Implies(x > 0, r > 0))
        ax.append(z3.Implies(z3.And(x >= 1, y >= 0), r >= 1))
        ax.append(z3.Implies(z3.And(x > 1, y > 0), r > 1))
        ax.append(z3.Implies(z3.And(x > 0, x <= 1, y >= 0), r <= 1))
        ax.append(z3.Implies(y == 1, r == x))
        ax.append(z3.Implies(x == 1, r == 1))
        # (b^e)^y = b^(e*y)
        if z3.is_app(x) and x.decl().name() == "pow" and x.num_args() == 2:
            b, e = x.arg(0), x.arg(1)
            prod = z3.simplify(e * y)
            ax.append(z3.Implies(b > 0, r == f(b, prod)))
            ax.append(z3.Implies(prod == 1, f(b, prod) == b))
        for (pargs, pr) in list(apps):
            # (b^e)^y = b^(e y) modulo equality: whenever the base x equals an earlier power b^e
            prod = z3.simplify(pargs[1] * y)
            comp = f(pargs[0], prod)
            ax.append(z3.Implies(z3.And(x == pr, pargs[0] > 0), r == comp))
            ax.append(z3.Implies(prod == 1, comp == pargs[0]))
            ax.append(z3.Implies(pargs[0] > 0, comp > 0))
            same = z3.simplify(pargs[1] == y)
            if z3.is_true(same):
                ax.append(z3.Implies(z3.And(pargs[0] > 0, pargs[0] < x, y > 0), pr < r))
                ax.append(z3.Implies(z3.And(x > 0, x < pargs[0], y > 0), r < pr))
                ax.append(z3.Implies(x == pargs[0], r == pr))
        E.trusted.add("axiom instances: x^y > 0, x^1 = x, 1^y = 1, (b^e)^y = b^(e y), x^y increasing in x for y > 0")
    elif name == "exp":
        x = targs[0]
        ax.append(r > 0)
        ax.append(z3.Implies(x == 0, r == 1))
        ax.append(z3.Implies(x <= 0, r <= 1))
        E.trusted.add("axiom instances: exp(x) > 0, exp(0) = 1, exp(x) <= 1 for x <= 0")
    elif name == "cos":
        x = targs[0]
        ax.append(r == f(-x))
        ax.append(z3.And(r >= -1, r <= 1))
        E.trusted.add("axiom instances: cos(-x) = cos(x), |cos| <= 1")
    elif name == "sin":
        ax.append(z3.And(r >= -1, r <= 1))
    apps.append((targs, r))
    for a in ax:
        E.ps.add(a)


PI = z3.Real("pi")
PI_AXIOM = z3.And(PI > z3.Q(31415926535, 10000000000), PI < z3.Q(31415926536, 10000000000))


def pi_value(E):
    E.trusted.add("pi as a real constant with 3.1415926535 < pi < 3.1415926536")
    if not getattr(E, "_pi_added", None) is E.ps:
        E.ps.add(PI_AXIOM)
        E._pi_added = E.ps
    return SReal(PI)


# ---------------------------------------------------------------------------------------
# arithmetic


def _num_kind(v):
    if isinstance(v, bool):
        return "i"
    if isinstance(v, int):
        return "i"
    if isinstance(v, Fraction):
        return "r"
    if isinstance(v, SInt):
        return "i"
    if isinstance(v, SReal):
        return "r"
    if isinstance(v, SBool):
        return "i"
    return None


def _as_int_value(E, v):
    if isinstance(v, bool):
        return int(v)
    if isinstance(v, SBool):
        return SInt(z3.If(v.e, z3.IntVal(1), z3.IntVal(0)), None, 0, 1)
    return v


def _ival(lo_a, hi_a, lo_b, hi_b, op):
    if None in (lo_a, hi_a, lo_b, hi_b):
        return None, None
    if op == "+":
        return lo_a + lo_b, hi_a + hi_b
    if op == "-":
        return lo_a - hi_b, hi_a - lo_b
    if op == "*":
        c = [lo_a * lo_b, lo_a * hi_b, hi_a * lo_b, hi_a * hi_b]
        return min(c), max(c)
    return None, None


def binop(E, op, a, b):
    ka, kb = _num_kind(a), _num_kind(b)
    if ka and kb:
        return num_binop(E, op, a, b, ka, kb)
    # ---- non numeric
    if op == "%" and E.is_strlike(a):
        return str_percent(E, a, b)
    if a is None or b is None:
        raise PyExc("TypeError", "unsupported operand type(s) for %s: NoneType" % op)
    if isinstance(a, Opaque) or isinstance(b, Opaque):
        raise Unsupported("arithmetic on opaque value")
    if op == "+":
        if E.is_strlike(a) and E.is_strlike(b):
            return str_concat(E, a, b)
        if isinstance(a, tuple) and isinstance(b, tuple):
            return a + b
        if isinstance(a, SList) and isinstance(b, SList):
            return E.new_heap(type(a)(a.items + b.items))
        if E.is_strlike(a) != E.is_strlike(b):
            raise PyExc("TypeError", "can only concatenate str to str")
    if op == "%" and E.is_strlike(a):
        return str_percent(E, a, b)
    if op == "*":
        if isinstance(a, (str, SBin)) and isinstance(b, int):
            if isinstance(a, str):
                return a * b
            return SBin(a.cells * b)
        if isinstance(a, SList) and isinstance(b, int):
            return E.new_heap(SList(a.items * b))
        if isinstance(b, SList) and isinstance(a, int):
            return E.new_heap(SList(b.items * a))
    if isinstance(a, NDArray) or isinstance(b, NDArray):
        return nd_binop(E, op, a, b)
    if op in ("|", "&", "-", "^") and isinstance(a, (SSet, set, frozenset)) and isinstance(b, (SSet, set, frozenset)):
        def conc(x):
            if isinstance(x, SSet):
                if x.items is None:
                    raise Unsupported("set algebra on a set of symbolic characters")
                return frozenset(x.items)
            return frozenset(x)
        sa, sb = conc(a), conc(b)
        r = {"|": sa | sb, "&": sa & sb, "-": sa - sb, "^": sa ^ sb}[op]
        return SSet(items=frozenset(r))
    if E.is_strlike(a) or E.is_strlike(b) or isinstance(a, (tuple, SList, SDict)) or isinstance(b, (tuple, SList, SDict)):
        raise PyExc("TypeError", "unsupported operand types for %s" % op)
    raise Unsupported("binop %s on %r, %r" % (op, type(a).__name__, type(b).__name__))


def num_binop(E, op, a, b, ka, kb):
    a = _as_int_value(E, a)
    b = _as_int_value(E, b)
    conc = is_concrete_num(a) and is_concrete_num(b)
    if op in ("+", "-", "*"):
        if conc:
            return {"+": a + b, "-": a - b, "*": a * b}[op]
        if op == "+" and ka == "i" and kb == "i":
            # carry-free addition of bit-view integers (x << k) + small: stays in the bit domain
            a_ok = (isinstance(a, int) and a >= 0) or (isinstance(a, SInt) and a.cells is not None)
            b_ok = (isinstance(b, int) and b >= 0) or (isinstance(b, SInt) and b.cells is not None)
            if a_ok and b_ok and (isinstance(a, SInt) or isinstance(b, SInt)):
                ca, cb = int_cells(a), int_cells(b)
                w = max(len(ca), len(cb))
                ca = [0] * (w - len(ca)) + ca
                cb = [0] * (w - len(cb)) + cb
                out = []
                for x, y in zip(ca, cb):
                    if isinstance(x, int) and x == 0:
                        out.append(y)
                    elif isinstance(y, int) and y == 0:
                        out.append(x)
                    else:
                        out = None
                        break
                if out is not None:
                    return int_from_cells(out)
        if ka == "i" and kb == "i" and isinstance(a, SInt) and a.cells is not None \
           and isinstance(b, int) and not isinstance(b, bool) and b >= 0:
            if op == "-":
                # x - c without borrow: every set bit of c meets a constant 1 in x
                ca = list(a.cells)
                if b.bit_length() <= len(ca):
                    okb = True
                    out = list(ca)
                    for k in range(b.bit_length()):
                        if (b >> k) & 1:
                            pos = len(ca) - 1 - k
                            x = ca[pos]
                            if isinstance(x, IRef) or B.norm(x) != 1 or not isinstance(B.norm(x), int):
                                okb = False
                                break
                            out[pos] = 0
                    if okb:
                        return int_from_cells(out)
            if op == "*" and b > 0 and (b & (b - 1)) == 0:
                return int_from_cells(list(a.cells) + [0] * (b.bit_length() - 1))
        if op == "*" and ka == "i" and kb == "i" and isinstance(b, SInt) and isinstance(a, int) and not isinstance(a, bool):
            if b.cells is not None and a > 0 and (a & (a - 1)) == 0:
                return int_from_cells(list(b.cells) + [0] * (a.bit_length() - 1))
        if ka == "i" and kb == "i":
            ta, _ = to_z3_num(a)
            tb, _ = to_z3_num(b)
            if op == "*" and isinstance(a, int) and a == 0 or op == "*" and isinstance(b, int) and b == 0:
                return 0
            la, ha = bounds(a)
            lb, hb = bounds(b)
            lo, hi = _ival(la, ha, lb, hb, op)
            t = {"+": ta + tb, "-": ta - tb, "*": ta * tb}[op]
            return SInt(t, None, lo, hi)
        if op == "*" and not is_concrete_num(a) and not is_concrete_num(b):
            # real x small-range integer: pin the integer when the path condition determines it
            # (keeps CPR arithmetic linear once the NL band is fixed); forks over its values otherwise
            for x, y, kx in ((a, b, ka), (b, a, kb)):
                if isinstance(x, SInt) and x.lo is not None and x.hi is not None and x.hi - x.lo <= 64 \
                   and not E.merge_depth:
                    xv = E.concretize_int(x, "integer factor")
                    return num_binop(E, "*", xv, y, "i", _num_kind(y))
        ta, tb = to_real(a), to_real(b)
        return SReal({"+": ta + tb, "-": ta - tb, "*": ta * tb}[op])
    if op == "/":
        if conc:
            if b == 0:
                raise PyExc("ZeroDivisionError", "division by zero")
            return Fraction(a) / Fraction(b)
        if not is_concrete_num(b):
            if isinstance(b, SInt):
                b = E.concretize_int(b, "divisor")
                return num_binop(E, op, a, b, ka, "i")
            from .interp import _has_transcendental
            if _has_transcendental(b.term, []):
                # the divisor comes out of a numpy elementary function: numpy scalars divide to
                # inf / nan with a warning instead of raising
                E.trusted.add("division by a numpy scalar does not raise (inf/nan instead)")
            elif E.decide(b.term == 0):
                raise PyExc("ZeroDivisionError", "float division by zero")
            return SReal(to_real(a) / b.term)
        if b == 0:
            raise PyExc("ZeroDivisionError", "division by zero")
        return SReal(to_real(a) / to_real(b))
    if op in ("//", "%"):
        if conc:
            if b == 0:
                raise PyExc("ZeroDivisionError", "integer division or modulo by zero")
            return a // b if op == "//" else a % b
        if not is_concrete_num(b):
            if isinstance(b, SInt):
                b = E.concretize_int(b, "divisor")
                return num_binop(E, op, a, b, ka, "i")
            raise Unsupported("modulo by symbolic real")
        if b == 0:
            raise PyExc("ZeroDivisionError", "integer division or modulo by zero")
        if b < 0:
            raise Unsupported("division by negative constant")
        if ka == "i" and kb == "i":
            ta, _ = to_z3_num(a)
            if op == "//":
                la, ha = bounds(a)
                lo = la // b if la is not None else None
                hi = ha // b if ha is not None else None
                return SInt(ta / b, None, lo, hi)
            return SInt(ta % b, None, 0, b - 1)
        ta = to_real(a)
        tb = to_real(b)
        q = z3.ToInt(ta / tb)
        if op == "//":
            return SReal(z3.ToReal(q))
        return SReal(ta - tb * z3.ToReal(q))
    if op == "**":
        if conc:
            if isinstance(b, int) and (b >= 0 or a != 0):
                if b < 0:
                    return Fraction(a) ** b
                return a ** b
            if isinstance(a, int) and isinstance(b, Fraction) and b.denominator == 1:
                return Fraction(a) ** b.numerator
        if isinstance(b, Fraction) and b.denominator == 1:
            b = b.numerator
        if isinstance(b, int) and not isinstance(b, bool) and 0 <= b <= 8:
            if b == 0:
                return 1
            r = a
            for _ in range(b - 1):
                r = num_binop(E, "*", r, a, _num_kind(r), ka)
            return r
        return uf(E, "pow", a, b)
    if op in ("<<", ">>", "&", "|", "^"):
        return bit_binop(E, op, a, b)
    raise Unsupported("numeric operator " + op)


def _bounded_nonneg(E, v):
    """for a symbolic int whose interval bounds do not show 0 <= v < 2**k: ask the solver (the interval
    analysis does not see the path condition)"""
    if not isinstance(v, SInt) or int_cells(v) is not None:
        return v
    try:
        if E.feasible_spec(v.term < 0):
            return v
        hi = v.hi
        if hi is None or hi < 0:
            hi = None
            for k in (8, 16, 32, 64):
                if not E.feasible_spec(v.term >= (1 << k)):
                    hi = (1 << k) - 1
                    break
            if hi is None:
                return v
        return SInt(v.term, None, 0, hi)
    except Exception:
        return v


def bit_binop(E, op, a, b):
    if isinstance(a, Fraction) or isinstance(b, Fraction) or isinstance(a, SReal) or isinstance(b, SReal):
        raise PyExc("TypeError", "unsupported operand type(s) for %s: float" % op)
    if isinstance(a, int) and isinstance(b, int):
        if op in ("<<", ">>") and b < 0:
            raise PyExc("ValueError", "negative shift count")
        return {"<<": lambda: a << b, ">>": lambda: a >> b, "&": lambda: a & b,
                "|": lambda: a | b, "^": lambda: a ^ b}[op]()
    if op in ("<<", ">>"):
        if not isinstance(b, int):
            b = E.concretize_int(b, "shift amount")
        if b < 0:
            raise PyExc("ValueError", "negative shift count")
        a = _bounded_nonneg(E, a)
        ca = int_cells(a)
        if ca is None:
            # arithmetic fall-back (exact for any sign): x << k = x*2^k ; x >> k = floor(x / 2^k)
            if op == "<<":
                return num_binop(E, "*", a, 1 << b, "i", "i")
            return num_binop(E, "//", a, 1 << b, "i", "i")
        if op == "<<":
            return int_from_cells(ca + [0] * b)
        return int_from_cells(ca[: len(ca) - b] if b < len(ca) else [0])
    # x & ~m with a concrete negative mask (two's complement, infinitely sign-extended): clears the bits of m
    if op == "&" and isinstance(b, int) and not isinstance(b, bool) and b < 0 and not isinstance(a, int):
        a2 = _bounded_nonneg(E, a)
        ca = int_cells(a2)
        if ca is not None:
            w = len(ca)
            return int_from_cells([c if (b >> (w - 1 - i)) & 1 else 0 for i, c in enumerate(ca)])
    if op == "&" and isinstance(a, int) and not isinstance(a, bool) and a < 0 and not isinstance(b, int):
        return bit_binop(E, op, b, a)
    a = _bounded_nonneg(E, a)
    b = _bounded_nonneg(E, b)
    ca, cb = int_cells(a), int_cells(b)
    if ca is None or cb is None:
        raise Unsupported("bit operation on possibly negative symbolic integer")
    w = max(len(ca), len(cb))
    ca = [0] * (w - len(ca)) + ca
    cb = [0] * (w - len(cb)) + cb
    out = []
    for x, y in zip(ca, cb):
        if op == "&":
            if isinstance(x, int) or isinstance(y, int):
                k, o = (x, y) if isinstance(x, int) else (y, x)
                out.append(o if k else 0)
            else:
                out.append(B.band(V.cell_bit(x), V.cell_bit(y)))
        elif op == "|":
            if isinstance(x, int) or isinstance(y, int):
                k, o = (x, y) if isinstance(x, int) else (y, x)
                out.append(1 if k else o)
            else:
                out.append(B.bor(V.cell_bit(x), V.cell_bit(y)))
        else:
            if isinstance(x, int) and x == 0:
                out.append(y)
            elif isinstance(y, int) and y == 0:
                out.append(x)
            else:
                out.append(B.bxor(V.cell_bit(x), V.cell_bit(y)))
    return int_from_cells(out)


# ---------------------------------------------------------------------------------------
# strings


def str_concat(E, a, b):
    if isinstance(a, str) and isinstance(b, str):
        return a + b
    if isinstance(a, (str, SBin)) and isinstance(b, (str, SBin)):
        ca = V.str_to_cells(a) if isinstance(a, str) else a.cells
        cb = V.str_to_cells(b) if isinstance(b, str) else b.cells
        if ca is not None and cb is not None:
            return sbin_or_str(ca + cb)
    if isinstance(a, (str, SHex)) and isinstance(b, (str, SHex)):
        if isinstance(a, str):
            ca, ua = V.hexstr_to_cells(a)
        else:
            ca, ua = a.cells, a.upper
        if isinstance(b, str):
            cb, ub = V.hexstr_to_cells(b)
        else:
            cb, ub = b.cells, b.upper
        if ca is not None and cb is not None:
            return SHex(ca + cb, ua + ub)
    return mkstr([a, b])


def _fmt_float(v, spec):
    return spec % float(v)


def format_one(E, v, conv, flags="", width=None, prec=None):
    """%-style / format-style conversion of a single value -> string value"""
    if conv in ("s", "r") and isinstance(v, SIte):
        return b_str(E, [v], {})
    v = E.force(v)
    if conv in ("s", "r"):
        s = b_str(E, [v], {})
        if width is not None and isinstance(s, str):
            s = s.rjust(width) if "-" not in flags else s.ljust(width)
        return s
    if conv in ("d", "i"):
        if isinstance(v, (Fraction, SReal)):
            v = b_int(E, [v], {})
        if v is None or E.is_strlike(v):
            raise PyExc("TypeError", "%d format: a real number is required")
        if isinstance(v, bool):
            v = int(v)
        if isinstance(v, int):
            return ("%" + flags + (str(width) if width else "") + "d") % v
        return mkstr([StrOfInt(v)])
    if conv in ("X", "x"):
        if v is None or E.is_strlike(v) or isinstance(v, (Fraction, SReal)):
            raise PyExc("TypeError", "%X format: an integer is required")
        if isinstance(v, bool):
            v = int(v)
        if isinstance(v, int):
            return ("%" + flags + (str(width) if width else "") + conv) % v
        cells = int_cells(v)
        if cells is None and isinstance(v, SInt) and v.hi is not None:
            # the interval bound does not know the path condition: ask the solver
            if E.decide(v.term < 0):
                raise Unsupported("%X of a negative symbolic int")
            v = SInt(v.term, None, 0, v.hi)
            cells = int_cells(v)
        if cells is None:
            raise Unsupported("%X of possibly negative symbolic int")
        upper = conv == "X"
        if "0" in flags and width:
            if len(cells) <= 4 * width:
                cells = [0] * (4 * width - len(cells)) + cells
                return SHex(cells, [upper] * width)
        # variable number of digits: fork on the digit count
        nd = (len(cells) + 3) // 4
        cells = [0] * (4 * nd - len(cells)) + cells
        k = nd
        while k > 1:
            top = cells[4 * (nd - k): 4 * (nd - k) + 4]
            nz = c_or(*[_bit_true(c) for c in top])
            if E.decide(nz):
                break
            k -= 1
        digits = cells[4 * (nd - k):]
        s = SHex(digits, [upper] * k)
        if width and k < width:
            pad = "0" if "0" in flags else " "
            return mkstr([pad * (width - k), s])
        return s
    if conv in ("f", "F", "e", "g"):
        if isinstance(v, (int, Fraction)) and not isinstance(v, bool):
            spec = "%" + flags + (str(width) if width else "") + ("." + str(prec) if prec is not None else "") + conv
            return spec % float(v)
        if v is None or E.is_strlike(v):
            raise PyExc("TypeError", "%f format: a real number is required")
        return mkstr([Opaque("fmt_" + conv, (v,))]) if False else SStr([StrOfInt(Opaque("float_fmt", (v,)))])
    raise Unsupported("format conversion %" + conv)


def _bit_true(c):
    b = V.cell_bit(c)
    if isinstance(b, int):
        return bool(b)
    return B.to_z3(b)


def str_percent(E, fmt, args):
    if not isinstance(fmt, str):
        raise Unsupported("symbolic format string")
    if not isinstance(args, SIte):
        args = E.force(args)
    if isinstance(args, tuple):
        arglist = list(args)
    else:
        arglist = [args]
    out = []
    i = 0
    ai = 0
    n = len(fmt)
    while i < n:
        ch = fmt[i]
        if ch != "%":
            j = fmt.find("%", i)
            if j < 0:
                j = n
            out.append(fmt[i:j])
            i = j
            continue
        i += 1
        if i < n and fmt[i] == "%":
            out.append("%")
            i += 1
            continue
        flags = ""
        while i < n and fmt[i] in "-+ #0":
            flags += fmt[i]
            i += 1
        width = ""
        while i < n and fmt[i].isdigit():
            width += fmt[i]
            i += 1
        prec = None
        if i < n and fmt[i] == ".":
            i += 1
            p = ""
            while i < n and fmt[i].isdigit():
                p += fmt[i]
                i += 1
            prec = int(p or "0")
        if i >= n:
            raise PyExc("ValueError", "incomplete format")
        conv = fmt[i]
        i += 1
        if ai >= len(arglist):
            raise PyExc("TypeError", "not enough arguments for format string")
        out.append(format_one(E, arglist[ai], conv, flags, int(width) if width else None, prec))
        ai += 1
    if ai < len(arglist):
        raise PyExc("TypeError", "not all arguments converted during string formatting")
    return mkstr(out)


def str_format(E, fmt, args, kwargs):
    """str.format with {} / {0} / {0:X} fields"""
    if not isinstance(fmt, str):
        raise Unsupported("symbolic format string")
    out = []
    i = 0
    auto = 0
    n = len(fmt)
    while i < n:
        ch = fmt[i]
        if ch == "{":
            if i + 1 < n and fmt[i + 1] == "{":
                out.append("{")
                i += 2
                continue
            j = fmt.index("}", i)
            field = fmt[i + 1: j]
            i = j + 1
            name, _, spec = field.partition(":")
            if name == "":
                idx = auto
                auto += 1
            else:
                idx = int(name)
            if idx >= len(args):
                raise PyExc("IndexError", "Replacement index out of range")
            out.append(format_spec(E, args[idx], spec))
        elif ch == "}":
            if i + 1 < n and fmt[i + 1] == "}":
                out.append("}")
                i += 2
                continue
            raise PyExc("ValueError", "Single '}' encountered in format string")
        else:
            out.append(ch)
            i += 1
    return mkstr(out)


def format_spec(E, v, spec):
    if spec == "":
        return b_str(E, [v], {})
    flags = ""
    s = spec
    if s and s[0] == "0":
        flags = "0"
        s = s[1:]
    width = ""
    while s and s[0].isdigit():
        width += s[0]
        s = s[1:]
    if s in ("X", "x", "d"):
        return format_one(E, v, s, flags, int(width) if width else None)
    if s == "b" and flags == "0" and width:
        w = int(width)
        if isinstance(v, bool):
            v = int(v)
        if isinstance(v, int):
            return format(v, spec)
        if isinstance(v, SInt):
            cells = int_cells(v)
            if cells is None:
                raise Unsupported("format(.., %r) of possibly negative symbolic int" % spec)
            cells = list(cells)
            while len(cells) > w:
                # more significant bits than the field width: the string is longer unless they are zero
                if E.decide(_bit_true(cells[0])):
                    raise Unsupported("format(.., %r): value wider than the field" % spec)
                cells = cells[1:]
            return sbin_or_str([0] * (w - len(cells)) + cells)
        raise PyExc("TypeError", "unsupported format string passed to %s.__format__" % type(v).__name__)
    raise Unsupported("format spec %r" % spec)


def b_str(E, args, kw):
    if not args:
        return ""
    if isinstance(args[0], SIte):
        # text of a value that differs between merged paths (e.g. "None or a number" handed to
        # print): an opaque string - no fork; comparing it with anything is outside the subset
        return SStr([StrOfInt(Opaque("str_of_merged_value", (args[0].c,)))])
    v = E.force(args[0])
    if isinstance(v, (str, SBin, SHex, SStr, SChr)):
        return v
    if isinstance(v, bool):
        return str(v)
    if isinstance(v, int):
        return str(v)
    if isinstance(v, Fraction):
        return repr(float(v))
    if v is None:
        return "None"
    if isinstance(v, SInt):
        if v.cells is not None and len(v.cells) == 1:
            return sbin_or_str([v.cells[0]])          # str() of a 0/1 value: a binary character
        if v.lo is not None and v.hi is not None and 0 <= v.lo and v.hi <= 9:
            return SChr(v.term + 48)
        return SStr([StrOfInt(v)])
    if isinstance(v, SBool):
        return SIte_str(E, v)
    if isinstance(v, SReal):
        return SStr([StrOfInt(Opaque("float_repr", (v,)))])
    if isinstance(v, tuple):
        return SStr([StrOfInt(Opaque("tuple_repr", v))])
    if isinstance(v, (SList, SDict, Opaque, ExcValue)):
        return SStr([StrOfInt(Opaque("repr", (id(v),)))])
    raise Unsupported("str() of %r" % type(v).__name__)


def SIte_str(E, v):
    return "True" if E.decide(v.e) else "False"


def b_int(E, args, kw):
    if not args:
        return 0
    v = E.force(args[0])
    base = args[1] if len(args) > 1 else kw.get("base")
    if base is not None:
        base = E.concretize_int(base, "int base")
        if not E.is_strlike(v):
            raise PyExc("TypeError", "int() can't convert non-string with explicit base")
    if isinstance(v, bool):
        return int(v)
    if isinstance(v, int):
        return v
    if isinstance(v, SBool):
        return SInt(z3.If(v.e, z3.IntVal(1), z3.IntVal(0)), None, 0, 1)
    if isinstance(v, SInt):
        return v
    if isinstance(v, Fraction):
        return math.trunc(v)
    if isinstance(v, SReal):
        t = v.term
        if z3.is_app_of(t, z3.Z3_OP_TO_REAL):
            return SInt(t.arg(0))
        # truncation towards zero; when the sign is implied by the path condition use the plain floor
        try:
            if not E.feasible_spec(t < 0):
                k = z3.ToInt(t)
                # ground instances of "floor is monotone" between the floor terms of this path: spares the
                # integer solver an enumeration over the (possibly huge) range of t
                reg = E.__dict__.setdefault("_floor_terms", {})
                if reg.get("ps") is not E.ps:
                    reg.clear()
                    reg["ps"] = E.ps
                    reg["terms"] = []
                for (t2, k2) in reg["terms"]:
                    E.ps.add(z3.Implies(t2 <= t, k2 <= k))
                    E.ps.add(z3.Implies(t <= t2, k <= k2))
                reg["terms"].append((t, k))
                return SInt(k)
            if not E.feasible_spec(t > 0):
                return SInt(-z3.ToInt(-t))
        except Exception:
            pass
        return SInt(z3.If(t >= 0, z3.ToInt(t), -z3.ToInt(-t)))
    if v is None:
        raise PyExc("TypeError", "int() argument must be a string or a number, not 'NoneType'")
    if isinstance(v, str):
        try:
            return int(v, base) if base is not None else int(v)
        except ValueError:
            raise PyExc("ValueError", "invalid literal for int(): %r" % v)
    if isinstance(v, SBin):
        b = 10 if base is None else base
        if len(v) == 0:
            raise PyExc("ValueError", "invalid literal for int() with base %d: ''" % b)
        if b == 2:
            return int_from_cells(v.cells)
        if b in (0,):
            raise Unsupported("int(x, 0)")
        # digits 0/1 in base b
        total = 0
        n = len(v)
        for i, c in enumerate(v.cells):
            bit = V.cell_bit(c)
            w = b ** (n - 1 - i)
            if isinstance(bit, int):
                total = num_binop(E, "+", total, bit * w, "i", "i")
            else:
                total = num_binop(E, "+", total, SInt(z3.If(B.to_z3(bit), z3.IntVal(w), z3.IntVal(0)), None, 0, w), "i", "i")
        if n == 1 and isinstance(total, SInt):
            total = SInt(total.term, [v.cells[0]])
        return total
    if isinstance(v, SHex):
        b = 10 if base is None else base
        if len(v) == 0:
            raise PyExc("ValueError", "invalid literal for int(): ''")
        if b == 16:
            return int_from_cells(v.cells)
        raise Unsupported("int(hex string, base %d)" % b)
    if isinstance(v, (SChr, SStr)):
        chars = E.str_chars(v)
        b = 10 if base is None else base
        if chars is None or not (2 <= b <= 10):
            raise Unsupported("int() of symbolic string")
        if len(chars) == 0:
            raise PyExc("ValueError", "invalid literal for int(): ''")
        total = 0
        for ch in chars:
            code = E.char_code(ch)
            if isinstance(code, int):
                if not (48 <= code <= 47 + b):
                    raise PyExc("ValueError", "invalid literal for int()")
                d = code - 48
            else:
                if not E.decide(z3.And(code >= 48, code <= 47 + b)):
                    raise PyExc("ValueError", "invalid literal for int()")
                d = SInt(code - 48, None, 0, b - 1)
            total = num_binop(E, "+", num_binop(E, "*", total, b, "i", "i"), d, "i", "i")
        return total
    if isinstance(v, (tuple, SList, SDict)):
        raise PyExc("TypeError", "int() argument must be a string or a number")
    raise Unsupported("int() of %r" % type(v).__name__)


def b_float(E, args, kw):
    if not args:
        return Fraction(0)
    v = E.force(args[0])
    if isinstance(v, bool):
        return Fraction(int(v))
    if isinstance(v, int):
        return Fraction(v)
    if isinstance(v, Fraction):
        return v
    if isinstance(v, SInt):
        return SReal(z3.ToReal(v.term))
    if isinstance(v, SReal):
        return v
    if isinstance(v, SBool):
        return SReal(z3.If(v.e, z3.RealVal(1), z3.RealVal(0)))
    if v is None:
        raise PyExc("TypeError", "float() argument must be a string or a real number, not 'NoneType'")
    if isinstance(v, str):
        try:
            return Fraction(repr(float(v)))
        except ValueError:
            raise PyExc("ValueError", "could not convert string to float")
    if isinstance(v, (tuple, SList, SDict)):
        raise PyExc("TypeError", "float() argument must be a string or a real number")
    raise Unsupported("float() of %r" % type(v).__name__)


def b_bool(E, args, kw):
    if not args:
        return False
    return mk_bool(E.truth(E.force(args[0])))


def b_len(E, args, kw):
    return E.seq_len(E.force(args[0]))


def b_abs(E, args, kw):
    v = E.force(args[0])
    if isinstance(v, bool):
        return int(v)
    if isinstance(v, (int, Fraction)):
        return abs(v)
    if isinstance(v, SInt):
        lo, hi = v.lo, v.hi
        nlo = nhi = None
        if lo is not None and hi is not None:
            nhi = max(abs(lo), abs(hi))
            nlo = 0 if lo <= 0 <= hi else min(abs(lo), abs(hi))
        if lo is not None and lo >= 0:
            return v
        return SInt(z3.If(v.term >= 0, v.term, -v.term), None, nlo, nhi)
    if isinstance(v, SReal):
        return SReal(z3.If(v.term >= 0, v.term, -v.term))
    if isinstance(v, NDArray):
        return NDArray([b_abs(E, [x], {}) for x in v.items])
    if v is None or E.is_strlike(v):
        raise PyExc("TypeError", "bad operand type for abs()")
    raise Unsupported("abs of %r" % type(v).__name__)


def _minmax(E, args, kw, is_min):
    key = kw.get("key")
    if len(args) == 1:
        items = E.iterate(E.force(args[0]))
    else:
        items = list(args)
    if not items:
        if "default" in kw:
            return kw["default"]
        raise PyExc("ValueError", "min()/max() arg is an empty sequence")
    keys = [E.call(key, [x], {}) if key is not None else x for x in items]
    if key is None and len(items) >= 8 and all(isinstance(E.force(x), (SReal, SInt, int, Fraction)) and
                                               not isinstance(x, bool) for x in items):
        # long numeric max / min: a fresh variable with its defining constraints (m bounds every item and
        # equals one of them) instead of a chain of nested if-then-else terms - same meaning, flat for the solver
        vals = [E.force(x) for x in items]
        allint = all(isinstance(v, (int, SInt)) for v in vals)
        E._mm_ctr = getattr(E, "_mm_ctr", 0) + 1
        name = "%s_%d" % ("min" if is_min else "max", E._mm_ctr)
        m = z3.Int(name) if allint else z3.Real(name)
        terms = [to_z3_num(v)[0] if allint else to_real(v) for v in vals]
        E.ps.add(z3.And(*[(m <= t) if is_min else (m >= t) for t in terms]))
        E.ps.add(z3.Or(*[m == t for t in terms]))
        return SInt(m) if allint else SReal(m)
    best = items[0]
    bestk = E.force(keys[0])
    import ast as _ast
    for x, k in zip(items[1:], keys[1:]):
        k = E.force(k)
        c = E.compare(_ast.Lt() if is_min else _ast.Gt(), k, bestk)
        if isinstance(c, bool):
            if c:
                best, bestk = x, k
            continue
        best = E.vmerge(c, x, best)
        bestk = E.vmerge(c, k, bestk)
    return best


def b_min(E, args, kw):
    return _minmax(E, args, kw, True)


def b_max(E, args, kw):
    return _minmax(E, args, kw, False)


def b_range(E, args, kw):
    vals = [E.concretize_int(E.force(a), "range bound") for a in args]
    return range(*vals)


def b_enumerate(E, args, kw):
    items = E.iterate(E.force(args[0]))
    start = E.concretize_int(args[1]) if len(args) > 1 else 0
    return [(start + i, x) for i, x in enumerate(items)]


def b_zip(E, args, kw):
    lists = [E.iterate(E.force(a)) for a in args]
    return [tuple(t) for t in zip(*lists)]


def b_list(E, args, kw):
    if not args:
        return E.new_heap(SList([]))
    return E.new_heap(SList(E.iterate(E.force(args[0]))))


def b_tuple(E, args, kw):
    if not args:
        return ()
    return tuple(E.iterate(E.force(args[0])))


def b_dict(E, args, kw):
    d = {}
    if args:
        src = E.force(args[0])
        if isinstance(src, SDict):
            d.update(src.d)
        else:
            for kv in E.iterate(src):
                k, v = E.iterate(kv)
                d[k] = v
    d.update(kw)
    return E.new_heap(SDict(d))


def b_set(E, args, kw):
    if not args:
        return SSet(items=frozenset())
    v = E.force(args[0])
    if isinstance(v, str):
        return SSet(items=frozenset(v))
    if isinstance(v, (SBin, SHex, SStr)):
        chars = E.str_chars(v)
        if chars is None:
            raise Unsupported("set() of variable-length string")
        return SSet(chars=chars)
    items = E.iterate(v)
    for it in items:
        if isinstance(it, Sym):
            raise Unsupported("set() of symbolic items")
    return SSet(items=frozenset(items))


def b_sorted(E, args, kw):
    items = E.iterate(E.force(args[0]))
    key = kw.get("key")
    for it in items:
        if isinstance(it, Sym):
            raise Unsupported("sorted() of symbolic items")
    if key is not None:
        keyed = [(E.force(E.call(key, [x], {})), x) for x in items]
        for k, _ in keyed:
            if isinstance(k, Sym):
                raise Unsupported("sorted() with symbolic keys")
        keyed.sort(key=lambda p: p[0])
        return E.new_heap(SList([x for _, x in keyed]))
    return E.new_heap(SList(sorted(items)))


def b_isinstance(E, args, kw):
    v = E.force(args[0])
    t = E.force(args[1])
    ts = t if isinstance(t, tuple) else (t,)
    for tt in ts:
        if isinstance(tt, Builtin) and tt.name in TYPE_NAMES:
            tt = TypeObj(tt.name)
        if isinstance(tt, TypeObj):
            n = tt.name
            if n == "str" and E.is_strlike(v):
                return True
            if n == "dict" and isinstance(v, SDict):
                return True
            if n == "int" and isinstance(v, (int, SInt, bool, SBool)):
                return True
            if n == "float" and isinstance(v, (Fraction, SReal)):
                return True
            if n == "bool" and isinstance(v, (bool, SBool)):
                return True
            if n == "list" and isinstance(v, SList):
                return True
            if n == "tuple" and isinstance(v, tuple):
                return True
        elif isinstance(tt, ClassValue):
            if isinstance(v, SObject):
                c = v.cls
                stack = [c]
                while stack:
                    x = stack.pop()
                    if x is tt:
                        return True
                    stack.extend(b for b in x.bases if isinstance(b, ClassValue))
        elif isinstance(tt, ExcClass):
            if isinstance(v, ExcValue):
                from .interp import exc_isinstance
                if exc_isinstance(v.cls, tt.name):
                    return True
        else:
            raise Unsupported("isinstance against %r" % (tt,))
    if isinstance(v, Opaque):
        raise Unsupported("isinstance of opaque")
    return False


def b_map(E, args, kw):
    fn = E.force(args[0])
    lists = [E.iterate(E.force(a)) for a in args[1:]]
    return E.new_heap(Iterator([E.call(fn, list(t), {}) for t in zip(*lists)]))


def b_next(E, args, kw):
    it = E.force(args[0])
    if not isinstance(it, Iterator):
        raise Unsupported("next() of %r" % type(it).__name__)
    if it.pos >= len(it.items):
        if len(args) > 1:
            return args[1]
        raise PyExc("StopIteration", None)
    v = it.items[it.pos]
    it.pos += 1
    return v


def b_iter(E, args, kw):
    return E.new_heap(Iterator(E.iterate(E.force(args[0]))))


def b_print(E, args, kw):
    # output is dropped; "%s" formatting of the arguments cannot raise for the value kinds modelled here
    return None


def b_format(E, args, kw):
    spec = args[1] if len(args) > 1 else ""
    return format_spec(E, E.force(args[0]), spec)


def b_bin(E, args, kw):
    v = E.force(args[0])
    if isinstance(v, bool):
        v = int(v)
    if isinstance(v, int):
        return bin(v)
    if isinstance(v, SInt):
        if int_cells(v) is None:
            raise Unsupported("bin() of possibly negative symbolic int")
        return BinRepr(v)
    raise PyExc("TypeError", "object cannot be interpreted as an integer")


def b_reversed(E, args, kw):
    v = E.force(args[0])
    if isinstance(v, (str, SBin, SHex, SStr)):
        n = E.seq_len(v)
        return E.new_heap(SList([E.getitem(v, k) for k in range(n - 1, -1, -1)]))
    items = E.iterate(v)
    return E.new_heap(SList(list(reversed(items))))


def b_repr(E, args, kw):
    v = E.force(args[0])
    if isinstance(v, (bool, int, str)) or v is None:
        return repr(v)
    if isinstance(v, (SInt,)):
        return b_str(E, [v], {})
    raise Unsupported("repr() of %s" % type(v).__name__)


def b_sum(E, args, kw):
    items = E.iterate(E.force(args[0]))
    total = args[1] if len(args) > 1 else 0
    for x in items:
        total = binop(E, "+", E.force(total), E.force(x))
    return total


def b_any(E, args, kw):
    items = E.iterate(E.force(args[0]))
    return mk_bool(c_or(*[E.truth(E.force(x)) for x in items]))


def b_all(E, args, kw):
    items = E.iterate(E.force(args[0]))
    return mk_bool(c_and(*[E.truth(E.force(x)) for x in items]))


def b_chr(E, args, kw):
    v = E.force(args[0])
    if isinstance(v, int):
        return chr(v)
    if isinstance(v, SInt):
        return SChr(v.term)
    raise PyExc("TypeError", "an integer is required")


def b_ord(E, args, kw):
    v = E.force(args[0])
    if isinstance(v, str):
        if len(v) != 1:
            raise PyExc("TypeError", "ord() expected a character")
        return ord(v)
    code = E.char_code(v)
    if isinstance(code, int):
        return code
    return SInt(code, None, 0, 0x10FFFF)


def b_round(E, args, kw):
    v = E.force(args[0])
    if isinstance(v, (int, Fraction)) and len(args) == 1:
        return round(v)
    nd = E.force(args[1]) if len(args) > 1 else kw.get("ndigits")
    if isinstance(v, (SReal, SInt, Fraction, int)) and not isinstance(v, bool) and (nd is None or isinstance(nd, int)):
        if isinstance(v, (SInt, int)) and (nd is None or nd >= 0):
            return v
        # nearest multiple of 10**-nd over the reals, ties to even (CPython's rule): a function of x, so that
        # two calls on the same value agree
        scale = Fraction(10) ** (nd or 0)
        x = to_real(v) * z3.RealVal(str(scale)) if isinstance(v, (SReal, SInt)) else None
        if x is None:
            x = z3.RealVal(str(Fraction(v) * scale))
        f = z3.ToInt(x + z3.RealVal("1/2"))
        k = z3.If(z3.And(z3.ToReal(f) == x + z3.RealVal("1/2"), f % 2 == 1), f - 1, f)
        E.trusted.add("round(x, n): nearest multiple of 10**-n over the reals, ties to even")
        if nd is None:
            return SInt(k)
        return SReal(z3.ToReal(k) / z3.RealVal(str(scale)))
    raise Unsupported("round()")


def b_super(E, args, kw):
    # super(Cls, self) -> proxy resolving in the bases of Cls
    if len(args) == 2:
        cls, obj = E.force(args[0]), E.force(args[1])
        return SuperProxy(cls, obj)
    raise Unsupported("zero-argument super()")


class SuperProxy:
    def __init__(self, cls, obj):
        self.cls = cls
        self.obj = obj


def b_hasattr(E, args, kw):
    obj = E.force(args[0])
    name = args[1]
    try:
        E.getattr(obj, name)
        return True
    except PyExc:
        return False


def b_getattr(E, args, kw):
    obj = E.force(args[0])
    try:
        return E.getattr(obj, args[1])
    except PyExc:
        if len(args) > 2:
            return args[2]
        raise


# ---------------------------------------------------------------------------------------
# methods


def get_method(E, obj, name):
    if isinstance(obj, SuperProxy):
        for b in obj.cls.bases:
            if isinstance(b, ClassValue):
                m = b.lookup(name)
                if m is not None:
                    return BoundMethod(m, obj.obj) if isinstance(m, FuncValue) else m
        if name == "__init__":
            return Builtin("object.__init__", lambda E, a, k: None)
        raise PyExc("AttributeError", name)
    if E.is_strlike(obj) or isinstance(obj, (BinRepr, BinDigits)):
        fn = STR_METHODS.get(name)
        if fn is not None:
            return Builtin("str." + name, lambda E, a, k, fn=fn, obj=obj: fn(E, obj, a, k))
        if hasattr(str, name) and isinstance(obj, str) and not name.startswith("__"):
            # a concrete string: run the real method when the arguments are concrete too
            def native_str_method(E, a, k, obj=obj, name=name):
                args = [E.force(x) for x in a]
                kws = {kk: E.force(vv) for kk, vv in k.items()}
                ok = lambda v: v is None or isinstance(v, (str, int, bool)) or \
                    (isinstance(v, tuple) and all(isinstance(x, (str, int)) for x in v))
                if not all(ok(v) for v in args) or not all(ok(v) for v in kws.values()):
                    raise Unsupported("str.%s with symbolic arguments" % name)
                try:
                    r = getattr(obj, name)(*args, **kws)
                except Exception as ex:
                    raise PyExc(type(ex).__name__, str(ex))
                if isinstance(r, list):
                    return E.new_heap(SList(list(r)))
                if isinstance(r, (str, int, bool, tuple)) or r is None:
                    return r
                raise Unsupported("result of str.%s" % name)
            return Builtin("str." + name, native_str_method)
        if hasattr(str, name):
            raise Unsupported("str.%s is not modelled" % name)
        raise PyExc("AttributeError", "'str' object has no attribute %r" % name)
    if isinstance(obj, SList):
        fn = LIST_METHODS.get(name)
        if fn is not None:
            return Builtin("list." + name, lambda E, a, k, fn=fn, obj=obj: fn(E, obj, a, k))
        if hasattr(list, name):
            raise Unsupported("list.%s is not modelled" % name)
        raise PyExc("AttributeError", "'list' object has no attribute %r" % name)
    if isinstance(obj, SDict):
        fn = DICT_METHODS.get(name)
        if fn is not None:
            return Builtin("dict." + name, lambda E, a, k, fn=fn, obj=obj: fn(E, obj, a, k))
        if hasattr(dict, name):
            raise Unsupported("dict.%s is not modelled" % name)
        raise PyExc("AttributeError", "'dict' object has no attribute %r" % name)
    if isinstance(obj, (SSet, set, frozenset)):
        fn = SET_METHODS.get(name)
        if fn is not None:
            return Builtin("set." + name, lambda E, a, k, fn=fn, obj=obj: fn(E, obj, a, k))
    if isinstance(obj, tuple):
        if name == "__getitem__":
            return Builtin("tuple.__getitem__", lambda E, a, k, obj=obj: E.getitem(obj, a[0]))
    if isinstance(obj, NDArray):
        fn = ND_METHODS.get(name)
        if fn is not None:
            return Builtin("ndarray." + name, lambda E, a, k, fn=fn, obj=obj: fn(E, obj, a, k))
    if isinstance(obj, ExcValue):
        if name == "args":
            return tuple(obj.args or ())
    if obj is None:
        raise PyExc("AttributeError", "'NoneType' object has no attribute %r" % name)
    if isinstance(obj, int) and not isinstance(obj, bool) and name in ("bit_length", "bit_count"):
        return Builtin("int." + name, lambda E, a, k, obj=obj, name=name: getattr(obj, name)())
    if isinstance(obj, (int, Fraction, SInt, SReal, bool, SBool)):
        if hasattr(int, name) or hasattr(float, name):
            raise Unsupported("number.%s is not modelled" % name)
        raise PyExc("AttributeError", "number has no attribute %r" % name)
    if isinstance(obj, Builtin) and name == "__name__":
        return obj.name
    if isinstance(obj, Builtin) and obj.name == "dict" and name == "fromkeys":
        def fromkeys(E, a, k):
            val = a[1] if len(a) > 1 else None
            out = {}
            for key in E.iterate(E.force(a[0])):
                key = E.force(key)
                if isinstance(key, Sym):
                    raise Unsupported("dict.fromkeys with symbolic key")
                out[key] = val
            return E.new_heap(SDict(out))
        return Builtin("dict.fromkeys", fromkeys)
    return None


def m_zfill(E, s, a, k):
    n = E.concretize_int(E.force(a[0]), "zfill width")
    if isinstance(s, str):
        return s.zfill(n)
    if isinstance(s, BinDigits):
        cells = int_cells(s.val)
        # bin(x)[2:] has no leading zeros (except "0"); zfill(n) pads to n when the value
        # fits in n bits; a value needing more than n digits keeps its own length.
        if len(cells) <= n:
            return sbin_or_str([0] * (n - len(cells)) + cells)
        # wider view than n: decide whether the excess leading cells are zero
        extra = cells[: len(cells) - n]
        nz = c_or(*[_bit_true(c) for c in extra])
        if E.decide(nz):
            raise Unsupported("bin(x)[2:].zfill(n) with x >= 2**n")
        return sbin_or_str(cells[len(cells) - n:])
    if isinstance(s, SBin):
        if len(s) >= n:
            return s
        return SBin([0] * (n - len(s)) + s.cells)
    raise Unsupported("zfill on %r" % type(s).__name__)


def m_join(E, s, a, k):
    items = E.iterate(E.force(a[0]))
    if not isinstance(s, str):
        raise Unsupported("join with symbolic separator")
    out = []
    for i, it in enumerate(items):
        it = E.force(it)
        if not E.is_strlike(it):
            raise PyExc("TypeError", "sequence item %d: expected str instance" % i)
        if i and s:
            out.append(s)
        out.append(it)
    # all-binary / all-hex results keep their dedicated type
    if all(isinstance(x, (str, SBin)) for x in out) and any(isinstance(x, SBin) for x in out):
        cells = []
        ok = True
        for x in out:
            c = V.str_to_cells(x) if isinstance(x, str) else x.cells
            if c is None:
                ok = False
                break
            cells.extend(c)
        if ok:
            return sbin_or_str(cells)
    if all(isinstance(x, (str, SHex)) for x in out) and any(isinstance(x, SHex) for x in out):
        cells, upper = [], []
        ok = True
        for x in out:
            if isinstance(x, str):
                c, u = V.hexstr_to_cells(x)
                if c is None:
                    ok = False
                    break
            else:
                c, u = x.cells, x.upper
            cells.extend(c)
            upper.extend(u)
        if ok:
            return SHex(cells, upper)
    return mkstr(out)


def m_replace(E, s, a, k):
    old, new = E.force(a[0]), E.force(a[1])
    if isinstance(s, str) and isinstance(old, str) and isinstance(new, str):
        return s.replace(old, new)
    if not (isinstance(old, str) and isinstance(new, str) and len(old) == 1):
        raise Unsupported("replace with symbolic / multi-char pattern")
    chars = E.str_chars(s)
    if chars is None:
        raise Unsupported("replace on variable-length string")
    out = []
    for ch in chars:
        c = E.str_eq(ch, old)
        if isinstance(c, bool):
            out.append(new if c else ch)
        elif E.decide(c):
            out.append(new)
        else:
            out.append(ch)
    return mkstr(out)


def m_format(E, s, a, k):
    return str_format(E, s, [E.force(x) for x in a], k)


def m_upper(E, s, a, k):
    if isinstance(s, str):
        return s.upper()
    if isinstance(s, SHex):
        return V.shex_or_str(s.cells, [True] * len(s))
    if isinstance(s, SBin):
        return s
    raise Unsupported("upper on %r" % type(s).__name__)


def m_lower(E, s, a, k):
    if isinstance(s, str):
        return s.lower()
    if isinstance(s, SHex):
        return SHex(s.cells, [False] * len(s))
    if isinstance(s, SBin):
        return s
    raise Unsupported("lower on %r" % type(s).__name__)


def char_code_value(E, ch):
    """character -> code point value that keeps a bit view: '0'/'1' characters become 0b11000b"""
    if isinstance(ch, str):
        return ord(ch)
    if isinstance(ch, SBin):
        return int_from_cells([1, 1, 0, 0, 0, ch.cells[0]])
    code = E.char_code(ch)
    if isinstance(code, int):
        return code
    r = SInt(code, None, 48, 102)
    if isinstance(ch, SHex):
        r.origin = ("hexchar", list(ch.cells))
    return r


def m_encode(E, s, a, k):
    chars = E.str_chars(s)
    if chars is None:
        raise Unsupported("encode of variable-length string")
    return E.new_heap(SByteList([char_code_value(E, c) for c in chars]))


def bytes_decode(E, l, a, k):
    out = []
    for c in l.items:
        c = E.force(c)
        if isinstance(c, bool):
            c = int(c)
        if isinstance(c, int):
            out.append(chr(c))
            continue
        if isinstance(c, SInt):
            cells = c.cells
            if cells is not None and c._term is None:
                cc = [B.norm(x) if not isinstance(x, IRef) else x for x in cells]
                if len(cc) == 6 and cc[:5] == [1, 1, 0, 0, 0]:
                    out.append(SBin([cells[5]]))
                    continue
            out.append(SChr(c.term))
            continue
        raise Unsupported("decode of non-integer byte")
    return mkstr(out) if out else ""


def m_startswith(E, s, a, k):
    p = E.force(a[0])
    n = E.seq_len(p)
    if E.seq_len(s) < n:
        return False
    return mk_bool(E.str_eq(E.getslice(s, 0, n), p))


def m_strip(E, s, a, k):
    if isinstance(s, str):
        return s.strip(*a)
    raise Unsupported("strip on symbolic string")


def m_str_getitem(E, s, a, k):
    return E.getitem(s, a[0])


def m_isupper(E, s, a, k):
    if isinstance(s, str):
        return s.isupper()
    raise Unsupported("isupper on symbolic string")


STR_METHODS = {"zfill": m_zfill, "join": m_join, "replace": m_replace, "format": m_format,
               "upper": m_upper, "lower": m_lower, "encode": m_encode, "decode": m_encode,
               "startswith": m_startswith, "strip": m_strip, "__getitem__": m_str_getitem,
               "isupper": m_isupper}


def l_append(E, l, a, k):
    l.items.append(a[0])


def l_extend(E, l, a, k):
    l.items.extend(E.iterate(E.force(a[0])))


def l_getitem(E, l, a, k):
    return E.getitem(l, a[0])


def l_copy(E, l, a, k):
    return E.new_heap(SList(l.items))


def l_sort(E, l, a, k):
    r = b_sorted(E, [l], k)
    l.items = r.items


def l_pop(E, l, a, k):
    if not l.items:
        raise PyExc("IndexError", "pop from empty list")
    idx = E.concretize_int(a[0]) if a else -1
    try:
        return l.items.pop(idx)
    except IndexError:
        raise PyExc("IndexError", "pop index out of range")


def l_index(E, l, a, k):
    for i, x in enumerate(l.items):
        if E.decide(E.veq(x, a[0])):
            return i
    raise PyExc("ValueError", "x not in list")


def l_insert(E, l, a, k):
    l.items.insert(E.concretize_int(a[0]), a[1])


LIST_METHODS = {"decode": bytes_decode, "append": l_append, "extend": l_extend, "__getitem__": l_getitem, "copy": l_copy,
                "sort": l_sort, "pop": l_pop, "index": l_index, "insert": l_insert}


def d_get(E, d, a, k):
    return E.dict_get(d, a[0], a[1] if len(a) > 1 else None, False)


def d_keys(E, d, a, k):
    return E.new_heap(SList(list(d.d.keys())))


def d_values(E, d, a, k):
    return E.new_heap(SList(list(d.d.values())))


def d_items(E, d, a, k):
    return E.new_heap(SList([(kk, vv) for kk, vv in d.d.items()]))


def d_update(E, d, a, k):
    if a:
        src = E.force(a[0])
        if isinstance(src, SDict):
            d.d.update(src.d)
        else:
            # an iterable of (key, value) pairs
            for it in E.iterate(src):
                it = E.force(it)
                pair = E.iterate(it)
                if len(pair) != 2:
                    raise PyExc("ValueError", "dictionary update sequence element has wrong length")
                key = E.force(pair[0])
                if isinstance(key, Sym):
                    raise Unsupported("dict.update with symbolic key")
                E.dict_key_guard(d.d, key)
                d.d[key] = pair[1]
    for kk, vv in k.items():
        d.d[kk] = vv


def d_getitem(E, d, a, k):
    return E.getitem(d, a[0])


def d_pop(E, d, a, k):
    key = E.force(a[0])
    if isinstance(key, Sym):
        raise Unsupported("dict.pop symbolic key")
    E.dict_key_guard(d.d, key)
    if key in d.d:
        return d.d.pop(key)
    if len(a) > 1:
        return a[1]
    raise PyExc("KeyError", repr(key))


DICT_METHODS = {"get": d_get, "keys": d_keys, "values": d_values, "items": d_items, "update": d_update,
                "__getitem__": d_getitem, "pop": d_pop}


def s_issubset(E, s, a, k):
    other = E.force(a[0])
    if isinstance(s, (set, frozenset)):
        s = SSet(items=frozenset(s))
    if isinstance(other, (set, frozenset)):
        other = SSet(items=frozenset(other))
    if not isinstance(other, SSet):
        other = b_set(E, [other], {})
    if s.items is not None and other.items is not None:
        return s.items <= other.items
    if s.chars is not None and other.items is not None:
        return mk_bool(c_and(*[c_or(*[E.str_eq(ch, it) for it in other.items if isinstance(it, str)])
                               for ch in s.chars]))
    if s.items is not None and other.chars is not None:
        return mk_bool(c_and(*[c_or(*[E.str_eq(ch, it) for ch in other.chars]) for it in s.items]))
    raise Unsupported("issubset of two symbolic sets")


SET_METHODS = {"issubset": s_issubset}


# ---------------------------------------------------------------------------------------
# hooks from the interpreter for special value kinds


def special_getitem(E, obj, idx):
    if type(obj).__name__ == "TypingStub":
        return obj
    if isinstance(obj, NDArray):
        return nd_getitem(E, obj, idx)
    if isinstance(obj, BinRepr):
        raise Unsupported("indexing bin() result")
    return NotImplemented


def special_getslice(E, obj, lo, hi, st):
    if isinstance(obj, BinRepr):
        lo_c = None if lo is None else E.concretize_int(lo)
        if lo_c == 2 and hi is None and st is None:
            return BinDigits(obj.val)
        raise Unsupported("slice of bin() other than [2:]")
    if isinstance(obj, NDArray):
        n = len(obj.items)
        a, b = E.slice_bounds(n, lo, hi, st)
        return NDArray(obj.items[a:b])
    return NotImplemented


def special_contains(E, container, item):
    return NotImplemented


def special_iterate(E, obj):
    if isinstance(obj, NDArray):
        return list(obj.items)
    return NotImplemented


def special_setitem(E, obj, idx, v):
    return NotImplemented


# ---------------------------------------------------------------------------------------
# numpy subset


def _real_fn1(name, concrete=None):
    def f(E, args, kw):
        x = E.force(args[0])
        if isinstance(x, NDArray):
            return NDArray([f(E, [it], {}) for it in x.items])
        if x is None or E.is_strlike(x):
            raise PyExc("TypeError", "%s: bad operand" % name)
        if concrete is not None and is_concrete_num(x):
            r = concrete(x)
            if r is not None:
                return r
        return uf(E, name, x)
    return f


def np_floor(E, args, kw):
    x = E.force(args[0])
    if isinstance(x, bool):
        x = int(x)
    if isinstance(x, int):
        return Fraction(x)
    if isinstance(x, Fraction):
        return Fraction(math.floor(x))
    if isinstance(x, SInt):
        return SReal(z3.ToReal(x.term))
    if isinstance(x, SReal):
        return SReal(z3.ToReal(z3.ToInt(x.term)))
    if x is None or E.is_strlike(x):
        raise PyExc("TypeError", "floor: bad operand")
    raise Unsupported("np.floor of %r" % type(x).__name__)


def np_isclose(E, args, kw):
    a, b = E.force(args[0]), E.force(args[1])
    rtol = kw.get("rtol", Fraction(1, 100000))
    atol = kw.get("atol", Fraction(1, 100000000))
    if a is None or b is None:
        raise PyExc("TypeError", "isclose: NoneType operand")
    d = b_abs(E, [binop(E, "-", a, b)], {})
    bound = binop(E, "+", atol, binop(E, "*", rtol, b_abs(E, [b], {})))
    import ast as _ast
    return mk_bool(E.compare(_ast.LtE(), d, bound))


def np_maximum(E, args, kw):
    a, b = E.force(args[0]), E.force(args[1])
    import ast as _ast
    c = E.compare(_ast.GtE(), a, b)
    if isinstance(c, bool):
        return a if c else b
    return E.vmerge(c, b_float(E, [a], {}), b_float(E, [b], {}))


def np_minimum(E, args, kw):
    a, b = E.force(args[0]), E.force(args[1])
    import ast as _ast
    c = E.compare(_ast.LtE(), a, b)
    if isinstance(c, bool):
        return a if c else b
    return E.vmerge(c, b_float(E, [a], {}), b_float(E, [b], {}))


def np_clip(E, args, kw):
    """np.clip(x, lo, hi) == minimum(maximum(x, lo), hi) for scalars (numpy's definition)"""
    x = args[0]
    lo_ = args[1] if len(args) > 1 else kw.get("a_min")
    hi_ = args[2] if len(args) > 2 else kw.get("a_max")
    if lo_ is not None:
        x = np_maximum(E, [x, lo_], {})
    if hi_ is not None:
        x = np_minimum(E, [x, hi_], {})
    return x


def np_where(E, args, kw):
    c = E.truth(E.force(args[0]))
    a, b = E.force(args[1]), E.force(args[2])
    if isinstance(c, bool):
        return a if c else b
    return E.vmerge(c, b_float(E, [a], {}), b_float(E, [b], {}))


def np_radians(E, args, kw):
    x = E.force(args[0])
    return binop(E, "/", binop(E, "*", x, pi_value(E)), 180)


def np_degrees(E, args, kw):
    x = E.force(args[0])
    return binop(E, "/", binop(E, "*", x, 180), pi_value(E))


def np_sqrt(E, args, kw):
    x = E.force(args[0])
    if isinstance(x, NDArray):
        return NDArray([np_sqrt(E, [i], {}) for i in x.items])
    if is_concrete_num(x):
        if x < 0:
            raise PyExc("ValueError", "math domain error")
        r = Fraction(x)
        n, d = math.isqrt(r.numerator), math.isqrt(r.denominator)
        if n * n == r.numerator and d * d == r.denominator:
            return Fraction(n, d)
    if x is None or E.is_strlike(x):
        raise PyExc("TypeError", "sqrt: bad operand")
    return uf(E, "sqrt", x)


def np_array(E, args, kw):
    v = E.force(args[0])
    items = E.iterate(v)
    return NDArray([E.force(i) for i in items])


def nd_getitem(E, arr, idx):
    idx = E.force(idx)
    if isinstance(idx, SList):
        # boolean mask selection with symbolic booleans: fork on each
        mask = idx.items
        if len(mask) != len(arr.items):
            raise PyExc("IndexError", "boolean index did not match indexed array")
        out = []
        for m, x in zip(mask, arr.items):
            if E.decide(E.truth(E.force(m))):
                out.append(x)
        return NDArray(out)
    if isinstance(idx, int):
        try:
            return arr.items[idx]
        except IndexError:
            raise PyExc("IndexError", "index out of bounds")
    if isinstance(idx, SInt):
        return E.sym_index(tuple(arr.items), idx, len(arr.items))
    raise Unsupported("ndarray index %r" % (idx,))


def nd_binop(E, op, a, b):
    if isinstance(a, NDArray) and isinstance(b, NDArray):
        if len(a.items) != len(b.items):
            raise PyExc("ValueError", "operands could not be broadcast together")
        return NDArray([binop(E, op, E.force(x), E.force(y)) for x, y in zip(a.items, b.items)])
    if isinstance(a, NDArray):
        return NDArray([binop(E, op, E.force(x), b) for x in a.items])
    return NDArray([binop(E, op, a, E.force(y)) for y in b.items])


ND_METHODS = {}


def math_atan2(E, args, kw):
    y, x = E.force(args[0]), E.force(args[1])
    if y is None or x is None or E.is_strlike(x) or E.is_strlike(y):
        raise PyExc("TypeError", "atan2: must be real number")
    return uf(E, "atan2", y, x)


def math_log10(E, args, kw):
    x = E.force(args[0])
    if is_concrete_num(x) and x <= 0:
        raise PyExc("ValueError", "math domain error")
    if isinstance(x, (SInt, SReal)):
        t = to_real(x)
        if E.decide(t <= 0):
            raise PyExc("ValueError", "math domain error")
    return uf(E, "log10", x)


def time_time(E, args, kw):
    E.trusted.add("time.time() returns a fresh real")
    E._time_ctr = getattr(E, "_time_ctr", 0) + 1
    return SReal(z3.Real("time_%d" % E._time_ctr))


class LazyPi:
    pass


class _NaN(Sym):
    def __repr__(self):
        return "NaN"


NAN = _NaN()


def make_numpy():
    members = {
        "floor": Builtin("np.floor", np_floor),
        "isclose": Builtin("np.isclose", np_isclose),
        "cos": Builtin("np.cos", _real_fn1("cos", lambda x: Fraction(1) if x == 0 else None)),
        "sin": Builtin("np.sin", _real_fn1("sin", lambda x: Fraction(0) if x == 0 else None)),
        "arccos": Builtin("np.arccos", _real_fn1("arccos")),
        "exp": Builtin("np.exp", _real_fn1("exp", lambda x: Fraction(1) if x == 0 else None)),
        "sqrt": Builtin("np.sqrt", np_sqrt),
        "arctan2": Builtin("np.arctan2", math_atan2),
        "radians": Builtin("np.radians", np_radians),
        "degrees": Builtin("np.degrees", np_degrees),
        "maximum": Builtin("np.maximum", np_maximum),
        "minimum": Builtin("np.minimum", np_minimum),
        "clip": Builtin("np.clip", np_clip),
        "where": Builtin("np.where", np_where),
        "array": Builtin("np.array", np_array),
        "absolute": Builtin("np.absolute", b_abs),
        "abs": Builtin("np.abs", b_abs),
        "pi": LazyPi(),
        "nan": NAN,
    }
    return StubModule("numpy", members)




def _bisect(side):
    def f(E, args, kw):
        a = E.force(args[0])
        x = E.force(args[1])
        items = [E.force(v) for v in E.iterate(a)]
        lo_ = E.concretize_int(E.force(args[2]), "bisect lo") if len(args) > 2 else kw.get("lo", 0)
        hi_ = E.concretize_int(E.force(args[3]), "bisect hi") if len(args) > 3 else kw.get("hi", len(items))
        if kw.get("key") is not None:
            raise Unsupported("bisect with key")
        if not all(isinstance(v, (int, Fraction)) and not isinstance(v, bool) for v in items):
            raise Unsupported("bisect on a list with symbolic or non-numeric items")
        if any(items[i] > items[i + 1] for i in range(len(items) - 1)):
            raise Unsupported("bisect on an unsorted list")
        import ast as _ast
        total = lo_
        for v in items[lo_:hi_]:
            c = E.compare(_ast.LtE() if side == "right" else _ast.Lt(), v, x)
            if isinstance(c, bool):
                total = binop(E, "+", total, 1 if c else 0)
            else:
                total = binop(E, "+", total, E.vmerge(c, 1, 0))
        return total
    return f


def make_bisect():
    return StubModule("bisect", {
        "bisect_right": Builtin("bisect.bisect_right", _bisect("right")),
        "bisect": Builtin("bisect.bisect", _bisect("right")),
        "bisect_left": Builtin("bisect.bisect_left", _bisect("left")),
    })


def math_ceil(E, args, kw):
    x = E.force(args[0])
    return binop(E, "-", 0, b_int(E, [np_floor(E, [binop(E, "-", 0, x)], {})], {}))


def math_hypot(E, args, kw):
    x, y = E.force(args[0]), E.force(args[1])
    return np_sqrt(E, [binop(E, "+", binop(E, "*", x, x), binop(E, "*", y, y))], {})


def make_math():
    return StubModule("math", {
        "cos": Builtin("math.cos", _real_fn1("cos", lambda x: Fraction(1) if x == 0 else None)),
        "sin": Builtin("math.sin", _real_fn1("sin", lambda x: Fraction(0) if x == 0 else None)),
        "acos": Builtin("math.acos", _real_fn1("arccos")),
        "exp": Builtin("math.exp", _real_fn1("exp", lambda x: Fraction(1) if x == 0 else None)),
        "fabs": Builtin("math.fabs", b_abs),
        "ceil": Builtin("math.ceil", math_ceil),
        "hypot": Builtin("math.hypot", math_hypot),
        # isqrt(n) == floor(sqrt(n)) is an identity over the reals (negative n: ValueError, via sqrt's domain check)
        "isqrt": Builtin("math.isqrt", lambda E, a, k: b_int(E, [np_sqrt(E, [E.force(a[0])], {})], {})),
        "sqrt": Builtin("math.sqrt", np_sqrt),
        "atan2": Builtin("math.atan2", math_atan2),
        "degrees": Builtin("math.degrees", np_degrees),
        "radians": Builtin("math.radians", np_radians),
        "log10": Builtin("math.log10", math_log10),
        "floor": Builtin("math.floor", lambda E, a, k: b_int(E, [np_floor(E, a, k)], {})),
        "pi": LazyPi(),
    })


def rt_bytes(E, args, kw):
    if not args:
        return E.new_heap(SByteList([]))
    v = E.force(args[0])
    if isinstance(v, SByteList):
        return E.new_heap(SByteList(v.items))
    if isinstance(v, int):
        return E.new_heap(SByteList([0] * v))
    if isinstance(v, SList):
        return E.new_heap(SByteList(v.items))
    raise Unsupported("bytes() of %r" % type(v).__name__)


def rt_as_char(E, args, kw):
    v = E.force(args[0])
    if E.is_strlike(v):
        if E.seq_len(v) != 1:
            raise PyExc("ValueError", "only single character unicode strings can be converted to Py_UCS4")
        return char_code_value(E, v)
    return v


def rt_c_narrow(E, args, kw):
    """`var = x` for a C integer variable of `bits` bits (vc/pyx2py.py): two's-complement truncation.
    Identity when the bounds or the bit view show that x fits; exact truncation of the bit view otherwise;
    for a value without bit view and without bounds the range is a proof obligation and the value is kept."""
    v = E.force(args[0])
    bits, signed = args[1], args[2]
    lo_, hi_ = (-(1 << (bits - 1)), (1 << (bits - 1)) - 1) if signed else (0, (1 << bits) - 1)
    if isinstance(v, (bool, SBool)):
        v = b_int(E, [v], {})
    if isinstance(v, int):
        v &= (1 << bits) - 1
        if signed and v >> (bits - 1):
            v -= 1 << bits
        return v
    if isinstance(v, (Fraction, SReal)):
        v = b_int(E, [v], {})
        if isinstance(v, int):
            return rt_c_narrow(E, [v, bits, signed], {})
    if not isinstance(v, SInt):
        raise Unsupported("C integer narrowing of %s" % type(v).__name__)
    if v.lo is not None and v.hi is not None and lo_ <= v.lo and v.hi <= hi_:
        return v
    cells = int_cells(v)
    if cells is not None:
        nv = bits - 1 if signed else bits
        if len(cells) <= nv:
            return v
        low = cells[len(cells) - bits:] if len(cells) >= bits else cells
        if not signed:
            return int_from_cells(low)
        u = int_from_cells(low[1:])
        top = int_from_cells(low[:1])
        return binop(E, "-", u, binop(E, "*", top, 1 << (bits - 1)))
    lab = "C integer range: value fits %s%d" % ("int" if signed else "uint", bits)
    if E.current_label:
        lab = E.current_label + "/" + lab
    E.check(z3.And(v.term >= lo_, v.term <= hi_), lab)
    return v


def rt_array(E, args, kw):
    return E.new_heap(SList(E.iterate(E.force(args[1]))))


def make_pyx_runtime():
    arr = StubModule("array", {"array": Builtin("array.array", rt_array)})
    return StubModule("vc_pyx_runtime", {
        "array": arr, "bytes": Builtin("bytes", rt_bytes), "bytearray": Builtin("bytearray", rt_bytes),
        "PyBytes_GET_SIZE": Builtin("len", b_len), "PyByteArray_GET_SIZE": Builtin("len", b_len),
        "_as_char": Builtin("_as_char", rt_as_char), "_c_narrow": Builtin("_c_narrow", rt_c_narrow)})


def b_wrap(E, args, kw):
    s = E.force(args[0])
    w = E.concretize_int(E.force(args[1] if len(args) > 1 else kw.get("width", 70)), "wrap width")
    n = E.seq_len(s)
    if isinstance(s, str) and any(ch.isspace() for ch in s):
        raise Unsupported("textwrap.wrap on text with whitespace")
    # whitespace-free text: fixed-width chunking (A1)
    E.trusted.add("textwrap.wrap on whitespace-free text is fixed-width chunking")
    return E.new_heap(SList([E.getslice(s, i, min(i + w, n)) for i in range(0, n, w)]))


def make_builtins():
    b = {}
    from .interp import StaticMethod, ClassMethod
    b["staticmethod"] = Builtin("staticmethod", lambda E, a, k: StaticMethod(E.force(a[0])))
    b["classmethod"] = Builtin("classmethod", lambda E, a, k: ClassMethod(E.force(a[0])))
    b["frozenset"] = Builtin("frozenset", b_set)
    b["divmod"] = Builtin("divmod", lambda E, a, k: (binop(E, "//", E.force(a[0]), E.force(a[1])),
                                                     binop(E, "%", E.force(a[0]), E.force(a[1]))))
    b["reversed"] = Builtin("reversed", b_reversed)
    b["pow"] = Builtin("pow", lambda E, a, k: binop(E, "**", E.force(a[0]), E.force(a[1])) if len(a) == 2
                       else binop(E, "%", binop(E, "**", E.force(a[0]), E.force(a[1])), E.force(a[2])))
    b["repr"] = Builtin("repr", b_repr)
    for name, fn in [("len", b_len), ("int", b_int), ("float", b_float), ("str", b_str), ("bool", b_bool),
                     ("abs", b_abs), ("min", b_min), ("max", b_max), ("range", b_range),
                     ("enumerate", b_enumerate), ("zip", b_zip), ("list", b_list), ("tuple", b_tuple),
                     ("dict", b_dict), ("set", b_set), ("sorted", b_sorted), ("isinstance", b_isinstance),
                     ("map", b_map), ("next", b_next), ("iter", b_iter), ("print", b_print),
                     ("format", b_format), ("bin", b_bin), ("sum", b_sum), ("any", b_any), ("all", b_all),
                     ("chr", b_chr), ("ord", b_ord), ("round", b_round), ("super", b_super),
                     ("hasattr", b_hasattr), ("getattr", b_getattr)]:
        b[name] = Builtin(name, fn)
    # int/str/... are also used as types in isinstance(): the Builtin doubles as TypeObj
    for name in EXC_NAMES:
        b[name] = ExcClass(name)
    b["None"] = None
    b["True"] = True
    b["False"] = False
    b["object"] = ClassValue("object", [], {}, "object")
    b["__name__"] = "__verif__"
    return b


EXC_NAMES = ["BaseException", "Exception", "RuntimeError", "ValueError", "TypeError", "KeyError",
             "IndexError", "LookupError", "NameError", "UnboundLocalError", "ZeroDivisionError",
             "ArithmeticError", "AssertionError", "AttributeError", "ImportError", "StopIteration",
             "NotImplementedError", "OverflowError", "OSError", "DeprecationWarning", "UserWarning",
             "Warning", "KeyboardInterrupt"]

TYPE_NAMES = {"str", "int", "float", "bool", "dict", "list", "tuple"}
