"""Symbolic value model of the VC generator (DESIGN 2.3).

Concrete Python values are kept as themselves (ints, bools, str, None, tuples) with floats
represented exactly as fractions.Fraction (assumption A2: machine floats as reals).
Symbolic values:

  SBool(e)            z3 Bool
  SInt(term, cells)   z3 Int, optionally with an exact bit view (list of cells, MSB first)
  SReal(term)         z3 Real
  SBin(cells)         string over '0'/'1' of concrete length; one cell per character
  SHex(cells, upper)  hex string of concrete length: 4 cells per character + case flag
  SStr(pieces)        general string: pieces are str | SChr | StrOfInt | SHex | SBin
  SIte(c, a, b)       generic merge of two values of different shape (resolved by forking)
  SList / SDict / SObject   heap objects (mutable, identity)
  Opaque(name,args)   result of a callee whose contract is "some value determined by args"

A *cell* is a bit (see bits.py) or IRef(seg, k): bit k (from the MSB) of an integer-valued
segment IntSeg(term, width) known to satisfy 0 <= term < 2**width.  This is the "typed
field" representation: a slice aligned with a field returns the field's Int term itself;
a slice cutting across fields is expressed with div/mod 2**k.
"""
from fractions import Fraction
import z3
from . import bits as B


class Unsupported(Exception):
    """construct outside the modelled subset -> obligation UNDECIDED, never a violation"""


class Sym:
    pass


class SBool(Sym):
    __slots__ = ("e",)

    def __init__(self, e):
        self.e = e

    def __repr__(self):
        return "SBool(%s)" % self.e


class IntSeg:
    __slots__ = ("term", "width")

    def __init__(self, term, width):
        self.term = term
        self.width = width


class IRef:
    __slots__ = ("seg", "k")

    def __init__(self, seg, k):
        self.seg = seg
        self.k = k

    def __repr__(self):
        return "IRef(%s[%d/%d])" % (self.seg.term, self.k, self.seg.width)


def cell_bit(c):
    """cell -> bit"""
    if isinstance(c, IRef):
        seg, k = c.seg, c.k

        def mk():
            sh = seg.width - 1 - k
            t = seg.term
            if sh:
                t = t / (1 << sh)
            return (t % 2) == 1
        return B.exprvar((seg.term.get_id(), seg.width, k), mk)
    return B.norm(c)


def cells_to_int(cells):
    """value of the big-endian cell list as python int or z3 Int term"""
    n = len(cells)
    const = 0
    terms = []
    i = 0
    while i < n:
        c = cells[i]
        if isinstance(c, IRef):
            j = i
            while (
                j + 1 < n
                and isinstance(cells[j + 1], IRef)
                and cells[j + 1].seg is c.seg
                and cells[j + 1].k == cells[j].k + 1
            ):
                j += 1
            run = j - i + 1
            seg = c.seg
            low = seg.width - 1 - cells[j].k
            t = seg.term
            if low > 0:
                t = t / (1 << low)
            if c.k > 0:
                t = t % (1 << run)
            sh = n - 1 - j
            terms.append(t * (1 << sh) if sh else t)
            i = j + 1
            continue
        b = B.norm(c)
        sh = n - 1 - i
        if isinstance(b, int):
            const += b << sh
        else:
            terms.append(z3.If(B.to_z3(b), z3.IntVal(1 << sh), z3.IntVal(0)))
        i += 1
    if not terms:
        return const
    e = terms[0]
    for t in terms[1:]:
        e = e + t
    if const:
        e = e + const
    return e


class SInt(Sym):
    __slots__ = ("_term", "cells", "lo", "hi", "origin")

    def __init__(self, term, cells=None, lo=None, hi=None):
        self.origin = None        # provenance, e.g. ("hexchar", nibble cells): code point of a hex-string character
        self._term = term
        self.cells = cells
        if cells is not None:
            # tight bounds from the bit view: constant cells count as they are, symbolic ones as 0 / 1
            l_ = 0
            h = 0
            for c in cells:
                l_ <<= 1
                h <<= 1
                if isinstance(c, IRef):
                    h |= 1
                    continue
                b = B.norm(c)
                if isinstance(b, int):
                    l_ |= b
                    h |= b
                else:
                    h |= 1
            lo = l_ if lo is None else max(lo, l_)
            hi = h if hi is None else min(hi, h)
        self.lo = lo
        self.hi = hi

    @property
    def term(self):
        if self._term is None:
            t = cells_to_int(self.cells)
            self._term = z3.IntVal(t) if isinstance(t, int) else t
        return self._term

    def __repr__(self):
        if self._term is None:
            return "SInt(<%d cells>)" % len(self.cells)
        s = str(self._term)
        return "SInt(%s)" % (s if len(s) < 200 else s[:200] + "...")


class SReal(Sym):
    __slots__ = ("term",)

    def __init__(self, term):
        self.term = term

    def __repr__(self):
        return "SReal(%s)" % self.term


def int_from_cells(cells):
    cells = list(cells)
    # leading constant-zero cells carry no information
    i = 0
    while i < len(cells) - 1 and not isinstance(cells[i], IRef) and B.norm(cells[i]) == 0 \
            and isinstance(B.norm(cells[i]), int):
        i += 1
    cells = cells[i:]
    conc = 0
    for c in cells:
        if isinstance(c, IRef):
            return SInt(None, cells)
        b = B.norm(c)
        if not isinstance(b, int):
            return SInt(None, cells)
        conc = (conc << 1) | b
    return conc


class SBin(Sym):
    __slots__ = ("cells",)

    def __init__(self, cells):
        self.cells = list(cells)

    def __len__(self):
        return len(self.cells)

    def __repr__(self):
        return "SBin(%d)" % len(self.cells)


def sbin_or_str(cells):
    """collapse to a concrete str when every cell is concrete"""
    out = []
    for c in cells:
        if isinstance(c, IRef):
            return SBin(cells)
        b = B.norm(c)
        if not isinstance(b, int):
            return SBin(cells)
        out.append("01"[b])
    return "".join(out)


def str_to_cells(s):
    cells = []
    for ch in s:
        if ch == "0":
            cells.append(0)
        elif ch == "1":
            cells.append(1)
        else:
            return None
    return cells


HEXDIG = "0123456789abcdefABCDEF"


def hexstr_to_cells(s):
    cells = []
    upper = []
    for ch in s:
        if ch not in HEXDIG:
            return None, None
        v = int(ch, 16)
        cells.extend([(v >> 3) & 1, (v >> 2) & 1, (v >> 1) & 1, v & 1])
        upper.append(ch.isupper() or ch.isdigit())
    return cells, upper


class SHex(Sym):
    """hex string of len(upper) characters; char i has nibble cells[4i:4i+4];
    upper[i] (bool | z3 Bool) says whether a letter digit is written in upper case"""

    __slots__ = ("cells", "upper")

    def __init__(self, cells, upper):
        self.cells = list(cells)
        self.upper = list(upper)
        assert len(self.cells) == 4 * len(self.upper)

    def __len__(self):
        return len(self.upper)

    def __repr__(self):
        return "SHex(%d)" % len(self.upper)


def shex_or_str(cells, upper):
    """collapse a hex string whose bits and letter cases are all concrete"""
    out = []
    for i in range(len(upper)):
        v = 0
        for c in cells[4 * i: 4 * i + 4]:
            if isinstance(c, IRef):
                return SHex(cells, upper)
            b = B.norm(c)
            if not isinstance(b, int):
                return SHex(cells, upper)
            v = v * 2 + b
        u = upper[i]
        if not isinstance(u, bool):
            if v >= 10:
                return SHex(cells, upper)
            u = True
        ch = "0123456789ABCDEF"[v]
        out.append(ch if u else ch.lower())
    return "".join(out)


class SChr(Sym):
    """one character given by its code point (python int or z3 Int).
    lut = (index term, first index, [code points]) when the character is a constant table
    indexed by a symbolic integer: comparisons with a literal then become index tests"""

    __slots__ = ("code", "lut")

    def __init__(self, code, lut=None):
        self.code = code
        self.lut = lut


class StrOfInt(Sym):
    """str(x) for an integer x (decimal, variable length)"""

    __slots__ = ("val",)

    def __init__(self, val):
        self.val = val


class SStr(Sym):
    __slots__ = ("pieces",)

    def __init__(self, pieces):
        out = []
        for p in pieces:
            if isinstance(p, SStr):
                ps = p.pieces
            else:
                ps = [p]
            for q in ps:
                if isinstance(q, str):
                    if q == "":
                        continue
                    if out and isinstance(out[-1], str):
                        out[-1] = out[-1] + q
                        continue
                out.append(q)
        self.pieces = out

    def known_len(self):
        n = 0
        for p in self.pieces:
            if isinstance(p, str):
                n += len(p)
            elif isinstance(p, SChr):
                n += 1
            elif isinstance(p, (SHex, SBin)):
                n += len(p)
            else:
                return None
        return n

    def chars(self):
        """list of per-character values (str of len 1 | SChr | 1-char SHex/SBin) or None"""
        out = []
        for p in self.pieces:
            if isinstance(p, str):
                out.extend(p)
            elif isinstance(p, SChr):
                out.append(p)
            elif isinstance(p, SHex):
                for i in range(len(p)):
                    out.append(SHex(p.cells[4 * i : 4 * i + 4], p.upper[i : i + 1]))
            elif isinstance(p, SBin):
                for c in p.cells:
                    out.append(SBin([c]))
            else:
                return None
        return out

    def __repr__(self):
        return "SStr(%r)" % (self.pieces,)


def mkstr(pieces):
    s = SStr(pieces)
    # a string made only of '0' / '1' characters keeps the dedicated binary-string type
    if s.pieces and all(isinstance(p, SBin) or (isinstance(p, str) and str_to_cells(p) is not None) for p in s.pieces) \
       and any(isinstance(p, SBin) for p in s.pieces):
        cells = []
        for p in s.pieces:
            cells.extend(p.cells if isinstance(p, SBin) else str_to_cells(p))
        return sbin_or_str(cells)
    if not s.pieces:
        return ""
    if len(s.pieces) == 1 and isinstance(s.pieces[0], (str, SHex, SBin)):
        return s.pieces[0]
    return s


class SIte(Sym):
    __slots__ = ("c", "a", "b")

    def __init__(self, c, a, b):
        self.c = c  # z3 Bool
        self.a = a
        self.b = b

    def __repr__(self):
        return "SIte(%s, %r, %r)" % (self.c, self.a, self.b)


class Opaque(Sym):
    """value about which only identity is known: equal iff same name and equal args"""

    __slots__ = ("name", "args")

    def __init__(self, name, args):
        self.name = name
        self.args = tuple(args)

    def __repr__(self):
        return "Opaque(%s)" % self.name


class SList:
    """mutable list; identity matters"""

    __slots__ = ("items",)

    def __init__(self, items):
        self.items = list(items)

    def __repr__(self):
        return "SList(%r)" % (self.items,)


class SByteList(SList):
    """bytes / bytearray: a list of character codes"""
    __slots__ = ()


class SDict:
    __slots__ = ("d",)

    def __init__(self, d=None):
        self.d = dict(d or {})

    def __repr__(self):
        return "SDict(%r)" % (self.d,)


class SSet:
    """set of concrete hashables or of characters of a symbolic string"""

    __slots__ = ("items", "chars")

    def __init__(self, items=None, chars=None):
        self.items = items  # python frozenset of concrete values, or None
        self.chars = chars  # list of 1-char symbolic strings, or None


class SObject:
    __slots__ = ("cls", "attrs")

    def __init__(self, cls):
        self.cls = cls
        self.attrs = {}


# ---------------------------------------------------------------------------------------
# numeric helpers


def is_num(v):
    return isinstance(v, (int, Fraction, SInt, SReal, SBool)) and not isinstance(v, str)


def is_concrete_num(v):
    return isinstance(v, (int, Fraction))


def to_z3_num(v):
    """-> (z3 term, is_int)"""
    if isinstance(v, bool):
        return z3.IntVal(int(v)), True
    if isinstance(v, int):
        return z3.IntVal(v), True
    if isinstance(v, Fraction):
        if v.denominator == 1:
            return z3.RealVal(v.numerator), False
        return z3.Q(v.numerator, v.denominator), False
    if isinstance(v, SInt):
        return v.term, True
    if isinstance(v, SReal):
        return v.term, False
    if isinstance(v, SBool):
        return z3.If(v.e, z3.IntVal(1), z3.IntVal(0)), True
    raise Unsupported("not a number: %r" % (v,))


def to_real(v):
    t, isint = to_z3_num(v)
    return z3.ToReal(t) if isint else t


def cond_of(v):
    """python bool or z3 Bool for a bool-like value"""
    if isinstance(v, bool):
        return v
    if isinstance(v, SBool):
        return v.e
    if z3.is_expr(v) and z3.is_bool(v):
        return v
    raise Unsupported("not a condition: %r" % (v,))


def mk_bool(c):
    if isinstance(c, bool):
        return c
    cs = z3.simplify(c)
    if z3.is_true(cs):
        return True
    if z3.is_false(cs):
        return False
    return SBool(c)     # the original term: bits.cond_to_bit maps it back to its affine form


def c_and(*cs):
    out = []
    for c in cs:
        if c is True:
            continue
        if c is False:
            return False
        out.append(c)
    if not out:
        return True
    if len(out) == 1:
        return out[0]
    return z3.And(*out)


def c_or(*cs):
    out = []
    for c in cs:
        if c is False:
            continue
        if c is True:
            return True
        out.append(c)
    if not out:
        return False
    if len(out) == 1:
        return out[0]
    return z3.Or(*out)


def c_not(c):
    if isinstance(c, bool):
        return not c
    return z3.Not(c)


def int_cells(v, width=None):
    """bit view (MSB first) of a non-negative integer value, or None"""
    if isinstance(v, bool):
        v = int(v)
    if isinstance(v, int):
        if v < 0:
            return None
        n = max(v.bit_length(), 1)
        cells = [(v >> (n - 1 - i)) & 1 for i in range(n)]
    elif isinstance(v, SInt):
        if v.cells is not None:
            cells = list(v.cells)
        elif v.lo is not None and v.lo >= 0 and v.hi is not None:
            w = max(v.hi.bit_length(), 1)
            seg = IntSeg(v.term, w)
            cells = [IRef(seg, k) for k in range(w)]
        else:
            return None
    else:
        return None
    if width is not None:
        if len(cells) < width:
            cells = [0] * (width - len(cells)) + cells
    return cells


def bounds(v):
    if isinstance(v, bool):
        return int(v), int(v)
    if isinstance(v, int):
        return v, v
    if isinstance(v, SInt):
        return v.lo, v.hi
    return None, None
