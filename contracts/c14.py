"""C14 - decoders are total and type-guarded on well-formed frames.

For 112-bit frames the per-function body obligations of C02-C13 (tagged C14 as well) already state the
exact outcome - a value of the documented shape for the documented DF / TC / subtype set, RuntimeError
otherwise - so C14 adds here: every exported decoder on *short* frames, the functions that have no
functional contract elsewhere (oe_flag, the raw position decoders on arbitrary type codes), and tell()."""
from vc.api import (harness, contract, repo, outcome, assume, BinStr, HexStr, IntRange, RealRange, Choice)
from spec import F

ADSB = repo("pyModeS.decoder.adsb")
COMMB = repo("pyModeS.decoder.commb")
SURV = repo("pyModeS.decoder.surv")
ALLCALL = repo("pyModeS.decoder.allcall")
PC = repo("pyModeS.py_common")
DEC = repo("pyModeS.decoder")
BDS = repo("pyModeS.decoder.bds")

ADSB_1 = ["altitude05", "callsign", "category", "altitude_diff", "emergency_squawk", "emergency_state",
          "is_emergency", "df", "icao", "typecode", "altitude", "speed_heading", "oe_flag", "version", "nuc_p",
          "nuc_v", "nic_s", "nic_a_c", "nic_b", "nac_p", "nac_v", "selected_altitude", "target_altitude",
          "vertical_mode", "horizontal_mode", "selected_heading", "target_angle", "baro_pressure_setting",
          "autopilot", "vnav_mode", "altitude_hold_mode", "approach_mode", "lnav_mode", "tcas_operational",
          "tcas_ra", "emergency_status", "airborne_velocity", "surface_velocity", "velocity"]
COMMB_1 = ["is10", "ovc10", "is17", "cap17", "is20", "cs20", "is30", "is40", "selalt40fms", "selalt40mcp", "p40baro",
           "alt40fms", "alt40mcp", "is50", "roll50", "trk50", "gs50", "rtrk50", "tas50", "is60", "hdg60", "ias60",
           "mach60", "vr60baro", "vr60ins", "is44", "wind44", "temp44", "p44", "hum44", "turb44", "is45", "turb45",
           "ws45", "mb45", "ic45", "wv45", "temp45", "p45", "rh45"]
SURV_1 = ["fs", "dr", "um", "altitude", "identity"]
ALLCALL_1 = ["icao", "interrogator", "capability"]
COMMON_1 = ["df", "crc", "icao", "typecode", "idcode", "altcode", "hex2bin", "hex2int", "data"]


# the short-frame obligations execute the real bodies of the decoders themselves (their functional
# contracts are stated for 112-bit frames); only the shared common functions are taken by contract
COMMON_CONTRACTS = ["pyModeS.py_common." + n for n in
                    ("hex2bin", "hex2int", "bin2int", "df", "typecode", "crc", "data", "wrongstatus",
                     "altitude", "gray2alt", "gray2int", "squawk")]


def short_format(msg):
    d = F.df_of(F.hexbits(msg))
    return d == 0 or d == 4 or d == 5 or d == 11


def region_commb_short(msg, name):
    """F18: every Comm-B decoder on a 56-bit frame (no MB field): ValueError instead of RuntimeError"""
    return True


@harness("C14", inputs={"msg": HexStr(14), "name": Choice(*ADSB_1)}, functions=["pyModeS.decoder.adsb.*"],
         regions=["region_oe_flag_short"], uses=COMMON_CONTRACTS)
def adsb_on_short_frames(msg, name):
    assume(short_format(msg))
    o = outcome(getattr(ADSB, name), msg)
    if name == "df" or name == "icao" or name == "typecode":
        assert o[0] == "ret", "df / icao / typecode are defined for every downlink format"
    else:
        assert o == ("raise", "RuntimeError"), "ADS-B decoders raise RuntimeError on a short (non-DF17/18) frame"


@harness("C14", inputs={"msg": HexStr(28), "name": Choice(*ADSB_1)}, functions=["pyModeS.decoder.adsb.*"],
         regions=["region_oe_flag_long"])
def adsb_total_on_long_frames(msg, name):
    # the literal totality clause for every exported ADS-B decoder on every 112-bit frame (the exact values are
    # the business of the body obligations of C02-C13; wrappers without one, e.g. speed_heading, are covered here)
    o = outcome(getattr(ADSB, name), msg)
    assert o[0] == "ret" or o == ("raise", "RuntimeError"), \
        "returns a value or raises RuntimeError on every 112-bit frame (no other exception type escapes)"


@harness("C14", inputs={"msg": HexStr(28), "name": Choice(*[n for n in COMMB_1 if n != "cap17"])},
         functions=["pyModeS.decoder.commb.*"])
def commb_total_on_long_frames(msg, name):
    # (cap17 builds one of 2**24 lists: its own obligations are c11.cap17_* - deductive up to two bits, bounded beyond)
    o = outcome(getattr(COMMB, name), msg)
    assert o[0] == "ret" or o == ("raise", "RuntimeError"), \
        "returns a value or raises RuntimeError on every 112-bit frame (no other exception type escapes)"


def region_oe_flag_long(msg, name):
    return False


def region_oe_flag_short(msg, name):
    """F17 (part): oe_flag has no DF / TC guard"""
    return name == "oe_flag"


@harness("C14", inputs={"msg": HexStr(14), "name": Choice(*COMMB_1)}, functions=["pyModeS.decoder.commb.*"],
         regions=["region_commb_short"], uses=COMMON_CONTRACTS)
def commb_on_short_frames(msg, name):
    assume(short_format(msg))
    o = outcome(getattr(COMMB, name), msg)
    assert o[0] == "ret" or o == ("raise", "RuntimeError"), \
        "Comm-B decoders return or raise RuntimeError on a short frame (no other exception type)"


@harness("C14", inputs={"msg": HexStr((14, 28)), "name": Choice(*SURV_1)}, functions=["pyModeS.decoder.surv.*"],
         uses=COMMON_CONTRACTS + ["pyModeS.py_common.altcode", "pyModeS.py_common.idcode"])
def surv_total(msg, name):
    o = outcome(getattr(SURV, name), msg)
    assert o[0] == "ret" or o == ("raise", "RuntimeError"), "surv.* return or raise RuntimeError"


@harness("C14", inputs={"msg": HexStr((14, 28)), "name": Choice(*ALLCALL_1)}, functions=["pyModeS.decoder.allcall.*"],
         uses=COMMON_CONTRACTS + ["pyModeS.py_common.icao"])
def allcall_total(msg, name):
    o = outcome(getattr(ALLCALL, name), msg)
    assert o[0] == "ret" or o == ("raise", "RuntimeError"), "allcall.* return or raise RuntimeError"


@harness("C14", inputs={"msg": HexStr((14, 28)), "name": Choice(*COMMON_1)}, functions=["pyModeS.py_common.*"],
         uses=[])
def common_total(msg, name):
    o = outcome(getattr(PC, name), msg)
    assert o[0] == "ret" or o == ("raise", "RuntimeError"), "common.* return or raise RuntimeError"


def region_untyped_position(msg, name):
    """F17: oe_flag and the raw position decoders accept every type code"""
    return True


@harness("C14", inputs={"msg": HexStr(28)}, functions=["pyModeS.decoder.adsb.oe_flag"],
         body_of=["pyModeS.decoder.adsb.oe_flag"], regions=["region_oe_flag_any_tc"])
def oe_flag_guarded(msg):
    tc = F.tc_of(F.hexbits(msg))
    o = outcome(ADSB.oe_flag, msg)
    if tc is not None and ((5 <= tc and tc <= 18) or (20 <= tc and tc <= 22)):
        assert o == ("ret", F.bit(F.hexbits(msg), 54)), "oe_flag == CPR format bit (frame bit 54) of a position message"
    else:
        assert o == ("raise", "RuntimeError"), "oe_flag raises RuntimeError for messages that are not position messages"


def region_oe_flag_any_tc(msg):
    """F17: oe_flag returns bit 54 of any frame"""
    tc = F.tc_of(F.hexbits(msg))
    return not (tc is not None and ((5 <= tc and tc <= 18) or (20 <= tc and tc <= 22)))


from vc.api import abstract_int, opaque, NATIVE_ABSTRACT, NATIVE_OPAQUE

INFER_RESULTS = [None, "EMPTY", "BDS10", "BDS17", "BDS20", "BDS30", "BDS40", "BDS44", "BDS45", "BDS50", "BDS60",
                 "BDS10,BDS17"]


def infer_abstract(msg, mrar=False):
    """what tell() needs to know about bds.infer: it returns None or a string; the strings tell() tests
    for are listed, every other value behaves like the last entry (proved exactly in C12)"""
    k = abstract_int("infer_class", 0, 11, msg, mrar)
    return INFER_RESULTS[k]


def _native_infer_class(msg, mrar):
    r = BDS.infer(msg, mrar)
    return INFER_RESULTS.index(r) if r in INFER_RESULTS else 11


NATIVE_ABSTRACT["infer_class"] = _native_infer_class


def callsign_opaque(msg):
    return opaque("bds08.callsign", msg)


def cs20_opaque(msg):
    return opaque("bds20.cs20", msg)


NATIVE_OPAQUE["bds08.callsign"] = lambda msg: ADSB.callsign(msg)
NATIVE_OPAQUE["bds20.cs20"] = lambda msg: COMMB.cs20(msg)


@harness("C14", inputs={"msg": HexStr((14, 28))}, functions=["pyModeS.decoder.tell"], body_of=["pyModeS.decoder.tell"],
         idealised=True, regions=["region_tell_short_commb"],
         overrides={"pyModeS.decoder.bds.infer": infer_abstract, "pyModeS.decoder.bds.bds08.callsign": callsign_opaque,
                    "pyModeS.decoder.bds.bds20.cs20": cs20_opaque})
def tell_total(msg):
    if len(msg) == 14:
        assume(short_format(msg))
    o = outcome(DEC.tell, msg)
    assert o == ("ret", None) or o == ("raise", "RuntimeError"), "tell() prints and returns, or raises RuntimeError"


def region_tell_short_commb(msg):
    return False


@harness("C14", inputs={"msg": HexStr(14), "name": Choice(*COMMB_1)}, functions=["pyModeS.decoder.commb.*"],
         uses=COMMON_CONTRACTS)
def commb_on_short_frames_only_valueerror(msg, name):
    # guard next to the known finding F18: whatever happens on a short frame, it is a return, the documented
    # RuntimeError or the known ValueError - any *other* exception type is a new violation
    assume(short_format(msg))
    o = outcome(getattr(COMMB, name), msg)
    assert o[0] == "ret" or o == ("raise", "RuntimeError") or o == ("raise", "ValueError"), \
        "no exception other than RuntimeError / the known ValueError on a short frame"


B05 = repo("pyModeS.decoder.bds.bds05")
B06 = repo("pyModeS.decoder.bds.bds06")


def position_tc(tc, surface):
    if tc is None:
        return False
    if surface:
        return 5 <= tc and tc <= 8
    return (9 <= tc and tc <= 18) or (20 <= tc and tc <= 22)


def region_raw_position_any_tc(msg, lat_ref, lon_ref, surface):
    """F17: the raw reference decoders accept every type code"""
    return not position_tc(F.tc_of(F.hexbits(msg)), surface)


@harness("C14", inputs={"msg": HexStr(28), "lat_ref": RealRange(-90, 90), "lon_ref": RealRange(-180, 180),
                         "surface": Choice(False, True)}, idealised=True, regions=["region_raw_position_any_tc"],
         kind="bounded", note="type-guard clause of the raw reference decoders, sampled natively (their decoding "
                              "contract is C04)",
         functions=["pyModeS.decoder.bds.bds05.airborne_position_with_ref",
                    "pyModeS.decoder.bds.bds06.surface_position_with_ref"])
def raw_ref_decoders_guarded(msg, lat_ref, lon_ref, surface):
    f = B06.surface_position_with_ref if surface else B05.airborne_position_with_ref
    o = outcome(f, msg, lat_ref, lon_ref)
    if position_tc(F.tc_of(F.hexbits(msg)), surface):
        assert o[0] == "ret", "a position message is decoded"
    else:
        assert o == ("raise", "RuntimeError"), "reference decoders raise RuntimeError for other type codes"


def region_raw_pair_any_tc(msg0, msg1, t0, t1, lat_ref, lon_ref, surface):
    """F17: the raw pair decoders accept every type code"""
    return not (position_tc(F.tc_of(F.hexbits(msg0)), surface) and position_tc(F.tc_of(F.hexbits(msg1)), surface))


@harness("C14", inputs={"msg0": HexStr(28), "msg1": HexStr(28), "t0": RealRange(0, 1000), "t1": RealRange(0, 1000),
                         "lat_ref": RealRange(-90, 90), "lon_ref": RealRange(-180, 180), "surface": Choice(False, True)},
         idealised=True, regions=["region_raw_pair_any_tc"], kind="bounded",
         note="symbolic execution of the pair decoders on two unconstrained frames forks over 59 x 59 NL values; the "
              "type-guard clause is only sampled natively here (their decoding contract is C03 / C05)",
         functions=["pyModeS.decoder.bds.bds05.airborne_position", "pyModeS.decoder.bds.bds06.surface_position"])
def raw_pair_decoders_guarded(msg0, msg1, t0, t1, lat_ref, lon_ref, surface):
    if surface:
        o = outcome(B06.surface_position, msg0, msg1, t0, t1, lat_ref, lon_ref)
    else:
        o = outcome(B05.airborne_position, msg0, msg1, t0, t1)
    ok0 = position_tc(F.tc_of(F.hexbits(msg0)), surface)
    ok1 = position_tc(F.tc_of(F.hexbits(msg1)), surface)
    if not (ok0 and ok1):
        assert o == ("raise", "RuntimeError"), "pair decoders raise RuntimeError unless both frames are position messages"
    else:
        assert o[0] == "ret" or o == ("raise", "RuntimeError"), "pair decoders return or raise RuntimeError"
