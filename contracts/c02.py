"""C02 - ICAO address recovery is exact and canonical for every downlink format."""
from vc.api import (harness, contract, repo, outcome, assume, bits_of, hex_of_bits, BinStr, HexStr, Choice)
from spec import common_spec as CS
from spec import crc_spec
from spec import F

PC = repo("pyModeS.py_common")
ADSB = repo("pyModeS.decoder.adsb")
ALLCALL = repo("pyModeS.decoder.allcall")
P = "pyModeS.py_common."


def region_lowercase_aa(msg):
    """known-finding region F1: DF11/17/18 frame whose AA field contains a lower-case letter"""
    bits = F.hexbits(msg)
    d = F.df_of(bits)
    return (d == 11 or d == 17 or d == 18) and msg[2:8] != CS.icao(msg)


@harness(("C02", "C17", "C14"), inputs={"msg": HexStr((14, 28))}, functions=[P + "icao"], body_of=[P + "icao"],
         regions=["region_lowercase_aa"])
def icao_body(msg):
    assert outcome(PC.icao, msg) == outcome(CS.icao, msg), \
        "icao == AA (upper case) for DF11/17/18, parity xor AP for DF0/4/5/16/20/21, None otherwise"


@harness("C02", inputs={"payload": BinStr((32, 88)), "addr": BinStr(24), "case": BinStr((14, 28))})
def icao_roundtrip_parity_overlay(payload, addr, case):
    # transponder side per Annex 10: AP = parity(data) xor address
    assume(len(payload) + 24 == 4 * len(case))
    d = F.df_of(payload)
    assume(d == 0 or d == 4 or d == 5 or d == 16 or d == 20 or d == 21)
    parity = crc_spec.REM(payload + "0" * 24)
    msg = hex_of_bits(payload + bits_of(parity ^ int(addr, 2), 24), case)
    assert PC.icao(msg) == hex_of_bits(addr), "icao(P || (REM(P||0) xor A)) == '%06X' % A in any letter case"


@harness("C02", inputs={"head": BinStr(8), "addr": BinStr(24), "rest": BinStr((24, 80)), "case": BinStr((14, 28))})
def icao_roundtrip_aa(head, addr, rest, case):
    assume(32 + len(rest) == 4 * len(case))
    d = F.df_of(head)
    assume(d == 11 or d == 17 or d == 18)
    msg = hex_of_bits(head + addr + rest, case)
    assert PC.icao(msg) == hex_of_bits(addr), "icao(DF11/17/18 frame) == AA field, canonical upper case"


@harness(("C02", "C14"), inputs={"msg": HexStr(28)}, functions=["pyModeS.decoder.adsb.icao"], body_of=["pyModeS.decoder.adsb.icao"])
def adsb_icao_body(msg):
    assert outcome(ADSB.icao, msg) == outcome(CS.icao, msg), "adsb.icao == icao"


@harness(("C02", "C14"), inputs={"msg": HexStr((14, 28))}, functions=["pyModeS.decoder.allcall.icao"],
         body_of=["pyModeS.decoder.allcall.icao"])
def allcall_icao_body(msg):
    bits = F.hexbits(msg)
    if F.df_of(bits) == 11:
        assert outcome(ALLCALL.icao, msg) == ("ret", hex_of_bits(bits[8:32])), "allcall.icao == AA for DF11"
    else:
        assert outcome(ALLCALL.icao, msg) == ("raise", "RuntimeError"), "allcall.icao rejects DF != 11"
