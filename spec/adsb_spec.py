"""ADS-B (DF17/18 extended squitter) field layouts, DO-260B 2.2.3.2 / Annex 10 Vol IV.
ME bit numbers are 1-based within the 56-bit ME field (frame bits 33-88)."""
from vc.api import require
from spec import F
from spec import alt_spec


def need112(msg):
    require(len(msg) == 28, "112-bit frame")
    return F.hexbits(msg)


# ----------------------------------------------------------------------------- altitude (C07)
def altitude05(msg):
    bits = need112(msg)
    tc = F.tc_of(bits)
    if tc is None or tc < 9 or tc == 19 or tc > 22:
        raise RuntimeError("not an airborne position message")
    me = F.me(bits)
    if tc <= 18:
        return alt_spec.alt12(me[8:20])
    return F.field(me, 9, 20) * alt_spec.FT_PER_M


def altitude(msg):
    bits = need112(msg)
    tc = F.tc_of(bits)
    if tc is None or tc < 5 or tc == 19 or tc > 22:
        raise RuntimeError("not a position message")
    if tc <= 8:
        return 0
    return altitude05(msg)


def surv_altitude(msg):
    require(len(msg) == 14 or len(msg) == 28, "56- or 112-bit frame")
    bits = F.hexbits(msg)
    d = F.df_of(bits)
    if d == 4:
        return alt_spec.alt13(bits[19:32])
    raise RuntimeError("DF4 expected (DF5 carries an identity code, not an altitude)")


# ----------------------------------------------------------------------------- identification (C10)
def six_bit_char(c):
    """Annex 10 Vol IV table 3-9 six-bit character set: 1-26 -> A-Z, 32 -> space (shown as
    '_'), 48-57 -> 0-9.  Every other code is not a legal identification character ('#')."""
    ch = "#"
    if 1 <= c and c <= 26:
        ch = chr(64 + c)
    if c == 32:
        ch = "_"
    if 48 <= c and c <= 57:
        ch = chr(c)
    return ch


def ident_chars(field48):
    out = ""
    for i in range(8):
        ch = six_bit_char(int(field48[6 * i:6 * i + 6], 2))
        out = out + ch
    return out


def drop_marks(s):
    out = ""
    for ch in s:
        if ch != "#":
            out = out + ch
    return out


def callsign(msg):
    bits = need112(msg)
    tc = F.tc_of(bits)
    if tc is None or tc < 1 or tc > 4:
        raise RuntimeError("not an identification message")
    me = F.me(bits)
    return drop_marks(ident_chars(me[8:56]))


def category(msg):
    bits = need112(msg)
    tc = F.tc_of(bits)
    if tc is None or tc < 1 or tc > 4:
        raise RuntimeError("not an identification message")
    return F.field(F.me(bits), 6, 8)


def cs20(msg):
    bits = need112(msg)
    return ident_chars(F.me(bits)[8:56])


# ----------------------------------------------------------------------------- TC28 / TC29 / TC31 (C13)
def tc28_me(msg):
    bits = need112(msg)
    if F.tc_of(bits) != 28:
        raise RuntimeError("TC28 expected")
    return F.me(bits)


def is_emergency(msg):
    """true exactly when an emergency state other than 'none' is reported (subtype 1)"""
    me = tc28_me(msg)
    subtype = F.field(me, 6, 8)
    if subtype == 2:
        raise RuntimeError("ACAS RA broadcast carries no emergency state")
    return subtype == 1 and F.field(me, 9, 11) != 0


def emergency_state(msg):
    me = tc28_me(msg)
    if F.field(me, 6, 8) == 2:
        raise RuntimeError("ACAS RA broadcast carries no emergency state")
    return F.field(me, 9, 11)


def tc29_me(msg, subtype_wanted):
    """ME field of a TC29 message of the wanted subtype (None = either)"""
    bits = need112(msg)
    if F.tc_of(bits) != 29:
        raise RuntimeError("TC29 expected")
    me = F.me(bits)
    st = F.field(me, 6, 7)
    if subtype_wanted == 1 and st == 0:
        raise RuntimeError("version 1 message does not carry this field")
    if subtype_wanted == 0 and st == 1:
        raise RuntimeError("version 2 message does not carry this field")
    return me


# --- subtype 1 (DO-260B): 9 alt type, 10-20 selected altitude, 21-29 baro setting, 30 hdg status,
#     31 hdg sign, 32-39 hdg, 47 mode status, 48 autopilot, 49 VNAV, 50 alt hold, 52 approach,
#     53 TCAS operational, 54 LNAV
def selected_altitude(msg):
    me = tc29_me(msg, 1)
    n = F.field(me, 10, 20)
    src = "MCP/FCU" if F.bit(me, 9) == 0 else "FMS"
    if n == 0:
        return None, "N/A"
    return (n - 1) * 32, src


def baro_pressure_setting(msg):
    me = tc29_me(msg, 1)
    n = F.field(me, 21, 29)
    x = 800 + (n - 1) * 0.8
    return None if n == 0 else x


def selected_heading(msg):
    """angular weighted binary: sign bit = 180 degrees, 8 bits of 180/256 (full 0-360 range)"""
    me = tc29_me(msg, 1)
    x = F.bit(me, 31) * 180 + F.field(me, 32, 39) * 180 / 256
    return None if F.bit(me, 30) == 0 else x


def mode_flag(msg, pos):
    me = tc29_me(msg, 1)
    v = F.bit(me, pos) == 1
    return None if F.bit(me, 47) == 0 else v


def autopilot(msg):
    return mode_flag(msg, 48)


def vnav_mode(msg):
    return mode_flag(msg, 49)


def altitude_hold_mode(msg):
    return mode_flag(msg, 50)


def approach_mode(msg):
    return mode_flag(msg, 52)


def lnav_mode(msg):
    return mode_flag(msg, 54)


def tcas_operational(msg):
    me = tc29_me(msg, None)
    if F.field(me, 6, 7) == 0:
        return F.bit(me, 52) == 0
    return F.bit(me, 53) == 1


# --- subtype 0 (DO-260A): 8-9 vertical source, 10 altitude type, 14-15 vertical mode, 16-25 target
#     altitude, 26-27 horizontal source, 28-36 target angle, 37 angle type, 38-39 horizontal mode,
#     52 TCAS not operational, 53 RA active, 54-56 emergency / priority
def target_altitude(msg):
    me = tc29_me(msg, 0)
    avail = F.field(me, 8, 9)
    ref = "FL" if F.bit(me, 10) == 0 else "MSL"
    alt = -1000 + F.field(me, 16, 25) * 100
    if avail == 0:
        return None, "N/A", ""
    if avail == 1:
        src = "MCP/FCU"
    elif avail == 2:
        src = "Holding mode"
    else:
        src = "FMS/RNAV"
    return alt, src, ref


def vertical_mode(msg):
    me = tc29_me(msg, 0)
    v = F.field(me, 14, 15)
    return None if v == 0 else v


def horizontal_mode(msg):
    me = tc29_me(msg, 0)
    v = F.field(me, 38, 39)
    return None if v == 0 else v


def target_angle_value(msg):
    """(angle or None, source label); the heading/track flag polarity is not asserted"""
    me = tc29_me(msg, 0)
    avail = F.field(me, 26, 27)
    ang = F.field(me, 28, 36)
    if avail == 0:
        return None, "N/A"
    if avail == 1:
        src = "MCP/FCU"
    elif avail == 2:
        src = "Autopilot mode"
    else:
        src = "FMS/RNAV"
    return ang, src


def tcas_ra(msg):
    me = tc29_me(msg, 0)
    return F.bit(me, 53) == 1


def emergency_status(msg):
    me = tc29_me(msg, 0)
    return F.field(me, 54, 56)


# --- TC31 operational status / quality indicators
def tc_me(msg, allowed):
    bits = need112(msg)
    tc = F.tc_of(bits)
    ok = False
    for a in allowed:
        if tc == a:
            ok = True
    if not ok:
        raise RuntimeError("type code not in the documented set")
    return tc, F.me(bits)


def version(msg):
    tc, me = tc_me(msg, (31,))
    return F.field(me, 41, 43)


def nic_s(msg):
    tc, me = tc_me(msg, (31,))
    return F.bit(me, 44)


def nic_a_c(msg):
    tc, me = tc_me(msg, (31,))
    return F.bit(me, 44), F.bit(me, 20)


def nic_b(msg):
    tc, me = tc_me(msg, (9, 10, 11, 12, 13, 14, 15, 16, 17, 18))
    return F.bit(me, 8)


def nac_p_category(msg):
    tc, me = tc_me(msg, (29, 31))
    return F.field(me, 40, 43) if tc == 29 else F.field(me, 45, 48)


def sil_category(msg):
    tc, me = tc_me(msg, (29, 31))
    return F.field(me, 45, 46) if tc == 29 else F.field(me, 51, 52)


def sil_supplement(msg):
    tc, me = tc_me(msg, (29, 31))
    return F.bit(me, 8) if tc == 29 else F.bit(me, 55)


def nuc_v_category(msg):
    tc, me = tc_me(msg, (19,))
    return F.field(me, 11, 13)


POSITION_TCS = (5, 6, 7, 8, 9, 10, 11, 12, 13, 14, 15, 16, 17, 18, 20, 21, 22)

NUCP_OF_TC = {5: 9, 6: 8, 7: 7, 8: 6, 9: 9, 10: 8, 11: 7, 12: 6, 13: 5, 14: 4, 15: 3, 16: 2, 17: 1, 18: 0,
              20: 9, 21: 8, 22: 0}


# ----------------------------------------------------------------------------- velocity (C09)
# TC19 ME bits: 6-8 subtype, 14 E/W sign | heading status, 15-24 E/W velocity | heading,
# 25 N/S sign | airspeed type, 26-35 N/S velocity | airspeed, 36 VR source, 37 VR sign,
# 38-46 vertical rate, 49 GNSS-baro sign, 50-56 GNSS-baro difference
from vc.api import ufun


def vertical_rate(me):
    n = F.field(me, 38, 46)
    sign = -1 if F.bit(me, 37) == 1 else 1
    vs = sign * (n - 1) * 64
    return None if n == 0 else vs


def vr_source(me):
    return "GNSS" if F.bit(me, 36) == 0 else "BARO"


def tc19_me(msg):
    bits = need112(msg)
    if F.tc_of(bits) != 19:
        raise RuntimeError("TC19 expected")
    return F.me(bits)


def airborne_velocity(msg, source=False):
    """subtypes 1-4 (the contract does not constrain the reserved subtypes 0, 5, 6, 7)"""
    me = tc19_me(msg)
    st = F.field(me, 6, 8)
    vs = vertical_rate(me)
    if st == 1 or st == 2:
        n_ew = F.field(me, 15, 24)
        n_ns = F.field(me, 26, 35)
        if n_ew == 0 or n_ns == 0:
            return None
        mult = 4 if st == 2 else 1
        vx = (n_ew - 1) * mult * (-1 if F.bit(me, 14) == 1 else 1)      # towards east
        vy = (n_ns - 1) * mult * (-1 if F.bit(me, 25) == 1 else 1)      # towards north
        spd = int(ufun("sqrt", vy * vy + vx * vx))
        a = ufun("atan2", vx, vy) * 180 / PI()
        trk = a if a >= 0 else a + 360
        if source:
            return spd, trk, vs, "GS", "TRUE_NORTH", vr_source(me)
        return spd, trk, vs, "GS"
    n_as = F.field(me, 26, 35)
    mult = 4 if st == 4 else 1
    hdg = None if F.bit(me, 14) == 0 else F.field(me, 15, 24) * 360 / 1024
    aspd = None if n_as == 0 else (n_as - 1) * mult
    kind = "IAS" if F.bit(me, 25) == 0 else "TAS"
    if source:
        return aspd, hdg, vs, kind, "MAGNETIC_NORTH", vr_source(me)
    return aspd, hdg, vs, kind


def PI():
    from vc.api import pi_const
    return pi_const()


def altitude_diff(msg):
    me = tc19_me(msg)
    n = F.field(me, 50, 56)
    sign = -1 if F.bit(me, 49) == 1 else 1
    if n == 0:
        return None
    return sign * (n - 1) * 25


def movement_speed(mov):
    """DO-260B table 2-13 surface movement: lower bound of the quantisation band in knots;
    None for 'no information' (0) and the reserved codes 125-127"""
    spd = None
    if mov == 1:
        spd = 0
    if 2 <= mov and mov <= 8:
        spd = 0.125 + (mov - 2) * 0.125
    if 9 <= mov and mov <= 12:
        spd = 1 + (mov - 9) * 0.25
    if 13 <= mov and mov <= 38:
        spd = 2 + (mov - 13) * 0.5
    if 39 <= mov and mov <= 93:
        spd = 15 + (mov - 39) * 1
    if 94 <= mov and mov <= 108:
        spd = 70 + (mov - 94) * 2
    if 109 <= mov and mov <= 123:
        spd = 100 + (mov - 109) * 5
    if mov == 124:
        spd = 175
    return spd


def surface_velocity(msg, source=False):
    bits = need112(msg)
    tc = F.tc_of(bits)
    if tc is None or tc < 5 or tc > 8:
        raise RuntimeError("surface position message expected")
    me = F.me(bits)
    spd = movement_speed(F.field(me, 6, 12))
    trk = None if F.bit(me, 13) == 0 else F.field(me, 14, 20) * 360 / 128
    if source:
        return spd, trk, 0, "GS", "TRUE_NORTH", None
    return spd, trk, 0, "GS"


from vc.api import opaque, NATIVE_OPAQUE


def airborne_velocity_opaque(msg, source=False):
    """dispatcher proofs: 'whatever bds09.airborne_velocity returns for these arguments'"""
    return opaque("bds09.airborne_velocity", msg, source)


def surface_velocity_opaque(msg, source=False):
    return opaque("bds06.surface_velocity", msg, source)


def _native_av(msg, source):
    from vc.api import repo
    return repo("pyModeS.decoder.bds.bds09").airborne_velocity(msg, source)


def _native_sv(msg, source):
    from vc.api import repo
    return repo("pyModeS.decoder.bds.bds06").surface_velocity(msg, source)


NATIVE_OPAQUE["bds09.airborne_velocity"] = _native_av
NATIVE_OPAQUE["bds06.surface_velocity"] = _native_sv


# NIC of ADS-B version 2 (DO-260B table 2-70 / 2-200): type code x (NIC supplement A, NIC supplement
# B for airborne | C for surface).  None = combination not defined.
def nic_v2_category(tc, nica, nicbc):
    both0 = nica == 0 and nicbc == 0
    both1 = nica == 1 and nicbc == 1
    if tc == 7:
        if nica == 1 and nicbc == 0:
            return 9
        return 8 if both0 else None
    if tc == 8:
        if both1:
            return 7
        return 0 if both0 else 6
    if tc == 11:
        if both1:
            return 9
        return 8 if both0 else None
    if tc == 13:
        return 6                      # supplements select the containment radius only
    if tc == 16:
        if both1:
            return 3
        return 2 if both0 else None
    # type codes with a single NIC: only the supplement combination (0, 0) is defined
    if not both0:
        return None
    if tc == 5 or tc == 9 or tc == 20:
        return 11
    if tc == 6 or tc == 10 or tc == 21:
        return 10
    if tc == 12:
        return 7
    if tc == 14:
        return 5
    if tc == 15:
        return 4
    if tc == 17:
        return 1
    return 0            # 18, 22


def nic_v1_category(tc, nics):
    """ADS-B version 1 (DO-260A table 2-70); type code 7 is not asserted (sources disagree)"""
    if tc == 5 or tc == 9 or tc == 20:
        return 11
    if tc == 6 or tc == 10 or tc == 21:
        return 10
    if tc == 11:
        return 9 if nics == 1 else 8
    if tc == 12:
        return 7
    if tc == 13:
        return 6
    if tc == 14:
        return 5
    if tc == 15:
        return 4
    if tc == 16:
        return 3 if nics == 1 else 2
    if tc == 17:
        return 1
    return 0           # 8, 18, 22
