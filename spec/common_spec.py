"""Functional contracts (spec functions) of the shared `common` module, written from the
property statements and Annex 10 - not from the code.  Domain: `msg` is a string of hex
digits in either letter case; binary strings contain only '0' / '1'."""
from vc.api import require, bits_of, hex_of_bits
from spec import F
from spec import crc_spec
from spec import alt_spec
from spec import ident_spec


def hex2bin(hexstr):
    if len(hexstr) == 0:
        raise ValueError("empty")
    return F.hexbits(hexstr)


def hex2int(hexstr):
    if len(hexstr) == 0:
        raise ValueError("empty")
    return int(hexstr, 16)


def bin2int(binstr):
    if len(binstr) == 0:
        raise ValueError("empty")
    return int(binstr, 2)


def df(msg):
    require(len(msg) >= 2, "df: at least one byte")
    return F.df_of(F.hexbits(msg))


def typecode(msg):
    require(len(msg) >= 10, "typecode: frame reaches the ME field")
    return F.tc_of(F.hexbits(msg))


def typecode_c(msg):
    """c_common flavour: -1 stands for None"""
    t = typecode(msg)
    return -1 if t is None else t


def crc(msg, encode=False):
    require(len(msg) >= 8 and len(msg) % 2 == 0, "crc: whole bytes, at least 4")
    bits = F.hexbits(msg)
    if encode:
        bits = crc_spec.zero_parity(bits)
    return crc_spec.REM(bits)


def floor(x):
    return int(x // 1)


def icao(msg):
    """AA field for DF11/17/18 in canonical upper case; parity overlay for
    DF0/4/5/16/20/21; None otherwise (property C02)"""
    require(len(msg) == 14 or len(msg) == 28, "icao: 56- or 112-bit frame")
    bits = F.hexbits(msg)
    d = F.df_of(bits)
    if d == 11 or d == 17 or d == 18:
        return hex_of_bits(bits[8:32])
    if d == 0 or d == 4 or d == 5 or d == 16 or d == 20 or d == 21:
        n = len(bits)
        ap = int(bits[n - 24:], 2)
        return hex_of_bits(bits_of(crc_spec.REM(crc_spec.zero_parity(bits)) ^ ap, 24))
    return None


def data(msg):
    return msg[8:len(msg) - 6] if len(msg) >= 14 else msg[8:-6]


def allzeros(msg):
    require(len(msg) == 28, "allzeros: 112-bit frame")
    bits = F.hexbits(msg)
    return F.field(bits, 33, 88) == 0


# (status, msb, lsb) triples for which the body of wrongstatus() is verified against this contract
# (contracts/common.py wrongstatus_body): every triple the repository passes today plus boundary triples.  A call
# with any other triple does not establish the precondition below, which makes the CALLER undecided (bounded
# stand-in) - never a violation.
WS_TRIPLES = [(1, 2, 13), (14, 15, 26), (27, 28, 39), (48, 49, 51), (54, 55, 56), (5, 6, 23), (35, 36, 46),
              (47, 48, 49), (50, 51, 56), (1, 2, 3), (4, 5, 6), (7, 8, 9), (10, 11, 12), (13, 14, 15), (16, 17, 26),
              (27, 28, 38), (39, 40, 51), (1, 3, 11), (12, 13, 23), (24, 25, 34), (35, 36, 45), (46, 47, 56),
              (1, 3, 12), (13, 14, 23), (24, 25, 33), (34, 35, 46), (47, 49, 56), (1, 2, 12),
              (1, 1, 1), (56, 56, 56), (1, 1, 56), (56, 1, 56), (28, 1, 27), (1, 2, 56)]


def wrongstatus(data, sb, msb, lsb):
    """status bit clear while the field bits msb..lsb are not all zero"""
    require(1 <= sb and sb <= len(data) and 1 <= msb and msb <= lsb and lsb <= len(data),
            "wrongstatus: positions inside the payload")
    require((sb, msb, lsb) in WS_TRIPLES, "wrongstatus: a (status, msb, lsb) triple covered by the body obligation")
    return F.bit(data, sb) == 0 and F.field(data, msb, lsb) != 0


def altitude(binstr):
    return alt_spec.alt13(binstr)


def altitude_c(binstr):
    """c_common flavour: -999999 for 'all zero', -1 for an illegal Gillham code"""
    if len(binstr) != 13:
        raise RuntimeError("13 bits expected")
    if int(binstr, 2) == 0:
        return -999999
    a = alt_spec.alt13(binstr)
    return -1 if a is None else a


def altcode(msg):
    require(len(msg) == 14 or len(msg) == 28, "altcode: 56- or 112-bit frame")
    bits = F.hexbits(msg)
    d = F.df_of(bits)
    if not (d == 0 or d == 4 or d == 16 or d == 20):
        raise RuntimeError("DF 0, 4, 16 or 20 expected")
    return alt_spec.alt13(bits[19:32])


def gray2int(binstr):
    require(1 <= len(binstr) and len(binstr) <= 16, "gray2int: 1..16 bits")
    return alt_spec.gray_to_binary(binstr)


def gray2alt(binstr):
    require(len(binstr) == 11, "gray2alt: D2 D4 A1 A2 A4 B1 B2 B4 C1 C2 C4")
    return alt_spec.gillham(binstr[0], binstr[1], binstr[2], binstr[3], binstr[4], binstr[5],
                            binstr[6], binstr[7], binstr[8], binstr[9], binstr[10])


def squawk(binstr):
    if len(binstr) != 13:
        raise RuntimeError("13 bits expected")
    return ident_spec.squawk13(binstr)


def idcode(msg):
    require(len(msg) == 14 or len(msg) == 28, "idcode: 56- or 112-bit frame")
    bits = F.hexbits(msg)
    d = F.df_of(bits)
    if not (d == 5 or d == 21):
        raise RuntimeError("DF 5 or 21 expected")
    return ident_spec.squawk13(bits[19:32])
