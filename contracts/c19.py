"""C19 - the software demodulator recovers cleanly modulated frames."""
from vc.api import (harness, contract, repo, outcome, assume, new_object, property_level, abstract_int, hex_of_bits,
                    bits_of,
                    BinStr, HexStr, IntRange, RealRange, RealVec, Choice, Domain)
from spec import F
from spec import crc_spec

RTL = repo("pyModeS.extra.rtlreader")
R = "pyModeS.extra.rtlreader.RtlReader."

property_level("C19", "other", "recovery of sequences of frames in noise is a statement over unbounded sample histories and "
               "noise realisations; the per-frame recovery lemma and the safety clause are discharged deductively, "
               "sequences are only simulated (bounded)")

PREAMBLE = [1, 0, 1, 0, 0, 0, 0, 1, 0, 1, 0, 0, 0, 0, 0, 0]


@harness("C19", inputs={"p": RealVec(16, 0, 3), "n": Choice(15, 16, 17)}, functions=[R + "_check_preamble"],
         body_of=[R + "_check_preamble"], idealised=True)
def check_preamble_body(p, n):
    r = new_object(RTL.RtlReader)
    pulses = p[:n] if n <= 16 else p + [p[0]]
    want = n == 16
    if n == 16:
        for i in range(16):
            d = pulses[i] - PREAMBLE[i]
            if d > 0.8 or -d > 0.8:
                want = False
    assert outcome(r._check_preamble, pulses) == ("ret", want), \
        "_check_preamble <=> 16 samples, each within 0.8 of the 8 us preamble template"


def valid_df(bits, nbits):
    d = F.df_of(bits)
    if nbits == 112:
        return (d == 17 and crc_spec.REM(bits) == 0) or d == 20 or d == 21
    return d == 4 or d == 5 or d == 11


def calc_noise_abstract(self):
    """_calc_noise goes through numpy reshape / mean: abstracted as 'some value' - the harness sets the
    noise floor through the instance attribute (running minimum)"""
    return 1000000


def modulate(bits, amp, low, lead, tail):
    """2 samples per microsecond: preamble pulses at 0, 1, 3.5, 4.5 us, then one pulse pair per bit
    (pulse first = 1), followed by a quiet pair and `tail` quiet samples"""
    buf = []
    k = 0      # index into amp
    q = 0      # index into low
    for _ in range(lead):
        buf.append(low[q])
        q += 1
    for s in PREAMBLE:
        if s == 1:
            buf.append(amp[k])
            k += 1
        else:
            buf.append(low[q])
            q += 1
    for b in bits:
        if b == "1":
            buf.append(amp[k])
            buf.append(low[q])
        else:
            buf.append(low[q])
            buf.append(amp[k])
        k += 1
        q += 1
    for _ in range(2 + tail):
        buf.append(low[q])
        q += 1
    return buf


def sample_frame(rng, fixed):
    n = fixed["bits"] if isinstance(fixed.get("bits"), int) else rng.choice([56, 112])
    if n == 112:
        df = rng.choice([17, 20, 21])
    else:
        df = rng.choice([4, 5, 11])
    body = format(df, "05b") + "".join(rng.choice("01") for _ in range(n - 5 - 24))
    par = "".join(rng.choice("01") for _ in range(24))
    if df == 17:
        par = format(crc_spec.REM(body + "0" * 24), "024b")
    nf = rng.choice([0.0001, 0.01, 0.05, 0.0948]) * rng.uniform(0.5, 1.0)
    lim = min(0.06, 3.162 * nf)
    flat = rng.random() < 0.3
    a0 = rng.uniform(max(0.3, 3.162 * nf), 1.4)
    amp = [a0 if flat else rng.choice([0.3, 1.4, rng.uniform(max(0.3, 3.162 * nf), 1.4)]) for _ in range(116)]
    amp = [max(a, 3.162 * nf) for a in amp]
    low = [rng.choice([0.0, lim * 0.999, rng.uniform(0, lim * 0.999)]) for _ in range(400)]
    return {"bits": body + par, "amp": amp, "low": low, "nf": nf}


def frame_bits(kind, body, par):
    """kind 'df17': DF17 frame with correct parity (any 83 data bits); 'long': DF20/21 with any parity;
    'short': DF4/5/11 (56 bits)"""
    if kind == "df17":
        data = "10001" + body[:83]
        return data + bits_of(crc_spec.REM(data + "0" * 24), 24)
    if kind == "long":
        bits = body[:88] + par
        d = F.df_of(bits)
        assume(d == 20 or d == 21)
        return bits
    bits = body[:32] + par
    d = F.df_of(bits)
    assume(d == 4 or d == 5 or d == 11)
    return bits


def sample_clean(rng, fixed):
    nf = rng.choice([0.0001, 0.01, 0.05, 0.0948]) * rng.uniform(0.5, 1.0)
    lim = min(0.06, 3.162 * nf)
    flat = rng.random() < 0.3
    a0 = rng.uniform(max(0.3, 3.162 * nf), 1.4)
    amp = [a0 if flat else rng.choice([0.3, 1.4, rng.uniform(max(0.3, 3.162 * nf), 1.4)]) for _ in range(116)]
    amp = [max(a, 3.162 * nf) for a in amp]
    low = [rng.choice([0.0, lim * 0.999, rng.uniform(0, lim * 0.999)]) for _ in range(400)]
    kind = fixed.get("kind", "long")
    df = {"df17": 17, "long": rng.choice([20, 21]), "short": rng.choice([4, 5, 11])}[kind]
    body = format(df, "05b") + "".join(rng.choice("01") for _ in range(83))
    return {"body": body, "amp": amp, "low": low, "nf": nf}


@harness("C19", sampler=sample_clean,
         inputs={"kind": Choice("long", "short"), "body": BinStr(88), "par": BinStr(24),
                 "amp": RealVec(116, 0.3, 1.4), "low": RealVec(400, 0, 0.06),
                 "nf": RealRange(0.0001, 0.5), "lead": Choice(0, 1, 3, quick=[0, 1]), "tail": Choice(0, 230, quick=[0])},
         functions=[R + "_process_buffer"], body_of=[R + "_process_buffer"], idealised=True,
         timeout={"quick": 300000, "thorough": 900000},
         note="one frame of symbolic content (DF20-21 / DF4-5-11; DF17 is demod_never_returns_bad_df17), symbolic per-pulse "
              "amplitudes in [0.3, 1.4], symbolic quiet samples below 0.2 x 0.3 and below the 10 dB detection "
              "threshold, several start offsets; 113 merged slicer steps")
def demod_recovers_one_frame(kind, body, par, amp, low, nf, lead, tail):
    bits = frame_bits(kind, body, par)
    # at least 10 dB above the noise floor: pulses >= 3.162 nf, quiet samples below that threshold
    for a in amp:
        assume(a >= 3.162 * nf)
    for x in low:
        assume(x < 3.162 * nf and x < 0.06)
    buf = modulate(bits, amp, low, lead, tail)
    # _calc_noise (numpy reshape / mean over 100 us windows) is replaced on the instance: the running
    # minimum keeps the noise floor given here
    r = new_object(RTL.RtlReader, signal_buffer=buf, noise_floor=nf, debug=False, _calc_noise=lambda: 1000000)
    out = r._process_buffer()
    assert len(out) == 1, "exactly one message is returned for one cleanly modulated frame"
    assert out[0][0] == hex_of_bits(bits), "the message is the frame, as upper-case hex of the right length"


@harness("C19", sampler=sample_clean,
         inputs={"body": BinStr(88), "par": BinStr(24), "amp": RealVec(116, 0.3, 1.4), "low": RealVec(400, 0, 0.06),
                 "nf": RealRange(0.0001, 0.5), "lead": Choice(0, 2, quick=[0]), "tail": Choice(0)},
         functions=[R + "_process_buffer"], body_of=[R + "_process_buffer"], idealised=True,
         timeout={"quick": 300000, "thorough": 900000})
def demod_never_returns_bad_df17(body, par, amp, low, nf, lead, tail):
    # safety clause on a cleanly modulated DF17 frame of arbitrary content and arbitrary parity:
    # it is returned iff its checksum is zero
    bits = "10001" + body[:83] + par
    for a in amp:
        assume(a >= 3.162 * nf)
    for x in low:
        assume(x < 3.162 * nf and x < 0.06)
    buf = modulate(bits, amp, low, lead, tail)
    r = new_object(RTL.RtlReader, signal_buffer=buf, noise_floor=nf, debug=False, _calc_noise=lambda: 1000000)
    out = r._process_buffer()
    if crc_spec.REM(bits) == 0:
        assert len(out) == 1 and out[0][0] == hex_of_bits(bits), "a DF17 frame with zero checksum is returned"
    else:
        assert len(out) == 0, "a DF17 frame with non-zero checksum is never returned"


def sim_buffer(rng, nframes):
    """frames in noise: amplitude A per frame in [0.3, 1.4], noise uniform below min(0.06, A / 3.162) / 1.5,
    gaps of at least one frame length"""
    frames = []
    buf = []
    nmax = 0.018
    def noise(n):
        return [rng.uniform(0.0005, nmax) for _ in range(n)]
    buf += noise(rng.randint(200, 400))
    for _ in range(nframes):
        s = sample_frame(rng, {})
        a = rng.choice([0.3, 1.4, rng.uniform(0.3, 1.4)])
        amp = [a * rng.uniform(0.97, 1.0) if a > 0.31 else 0.3 for _ in range(116)]
        low = noise(400)
        buf += modulate(s["bits"], amp, low, 0, 0)
        frames.append(hex_of_bits(s["bits"]))
        buf += noise(rng.randint(240, 500))
    buf += noise(600)
    return buf, frames


class Seed(Domain):
    def sample(self, rng):
        return rng.randint(0, 10 ** 9)


@harness("C19", inputs={"seed": Seed(), "nframes": Choice(1, 2, 5)}, kind="bounded", bound={"quick": 5000, "thorough": 50000},
         functions=[R + "_process_buffer", R + "_calc_noise", R + "_check_preamble", R + "_check_msg"],
         note="sequences of frames in uniform noise through the real _process_buffer / _calc_noise (bounded simulation): "
              "all start-offset parities, amplitudes at the range ends, gaps >= one frame")
def demod_sequences_in_noise(seed, nframes):
    import random
    rng = random.Random(seed)
    buf, frames = sim_buffer(rng, nframes)
    r = new_object(RTL.RtlReader, signal_buffer=buf, noise_floor=1e6, debug=False)
    out = [m[0] for m in r._process_buffer()]
    assert out == frames, "the sample-buffer processor returns exactly the modulated frames, in order"
