"""C08 - identity code and surveillance / all-call reply fields."""
from vc.api import (harness, contract, repo, outcome, assume, bits_of, hex_of_bits, abstract_int, BinStr, HexStr,
                    IntRange, Choice, NATIVE_ABSTRACT)
from spec import common_spec as CS
from spec import ident_spec
from spec import crc_spec
from spec import F

PC = repo("pyModeS.py_common")
SURV = repo("pyModeS.decoder.surv")
ALLCALL = repo("pyModeS.decoder.allcall")
BDS61 = repo("pyModeS.decoder.bds.bds61")
P = "pyModeS.py_common."

contract("pyModeS.decoder.bds.bds61.emergency_squawk")(ident_spec.emergency_squawk)


@harness(("C08", "C13", "C14"), inputs={"idb": BinStr(13)}, functions=[P + "squawk"], body_of=[P + "squawk"])
def squawk_body(idb):
    assert outcome(PC.squawk, idb) == outcome(CS.squawk, idb), "squawk == octal digits A B C D of the 13-bit ID"


@harness("C08", inputs={"idb": BinStr(13), "x": BinStr(1)}, functions=[P + "squawk"])
def squawk_ignores_x_bit(idb, x):
    other = idb[0:6] + x + idb[7:13]
    assert PC.squawk(idb) == PC.squawk(other), "squawk independent of the X bit"


@harness("C08", inputs={"a": IntRange(0, 7), "b": IntRange(0, 7), "c": IntRange(0, 7), "d": IntRange(0, 7),
                         "x": BinStr(1)}, functions=[P + "squawk"])
def squawk_roundtrip(a, b, c, d, x):
    # transmit side (Annex 10): A = A4 A2 A1 ... interleaved as C1 A1 C2 A2 C4 A4 X B1 D1 B2 D2 B4 D4
    A = bits_of(a, 3)
    B_ = bits_of(b, 3)
    C = bits_of(c, 3)
    D = bits_of(d, 3)
    idb = C[2] + A[2] + C[1] + A[1] + C[0] + A[0] + x + B_[2] + D[2] + B_[1] + D[1] + B_[0] + D[0]
    assert PC.squawk(idb) == str(a) + str(b) + str(c) + str(d), "the four octal digits are returned as transmitted"


@harness(("C08", "C14"), inputs={"idb": BinStr((0, 12, 14))}, functions=[P + "squawk"], body_of=[P + "squawk"])
def squawk_wrong_length(idb):
    assert outcome(PC.squawk, idb) == ("raise", "RuntimeError"), "squawk rejects strings that are not 13 bits"


@harness(("C08", "C14"), inputs={"msg": HexStr((14, 28))}, functions=[P + "idcode"], body_of=[P + "idcode"])
def idcode_body(msg):
    assert outcome(PC.idcode, msg) == outcome(CS.idcode, msg), "idcode == squawk(bits 20-32) for DF5/21, RuntimeError otherwise"


@harness(("C08", "C14"), inputs={"msg": HexStr((14, 28))}, functions=["pyModeS.decoder.surv.identity"],
         body_of=["pyModeS.decoder.surv.identity"])
def surv_identity_body(msg):
    bits = F.hexbits(msg)
    if F.df_of(bits) == 5:
        assert outcome(SURV.identity, msg) == ("ret", ident_spec.squawk13(bits[19:32])), "surv.identity == squawk for DF5"
    else:
        assert outcome(SURV.identity, msg) == ("raise", "RuntimeError"), "surv.identity rejects DF != 5"


@harness(("C08", "C14"), inputs={"msg": HexStr((14, 28))}, functions=["pyModeS.decoder.surv.fs"],
         body_of=["pyModeS.decoder.surv.fs"])
def surv_fs_body(msg):
    bits = F.hexbits(msg)
    d = F.df_of(bits)
    o = outcome(SURV.fs, msg)
    if d == 4 or d == 5:
        assert o[0] == "ret" and o[1][0] == F.field(bits, 6, 8), "fs == bits 6-8"
    else:
        assert o == ("raise", "RuntimeError"), "fs rejects DF not in {4,5}"


@harness(("C08", "C14"), inputs={"msg": HexStr((14, 28))}, functions=["pyModeS.decoder.surv.dr"],
         body_of=["pyModeS.decoder.surv.dr"])
def surv_dr_body(msg):
    bits = F.hexbits(msg)
    d = F.df_of(bits)
    o = outcome(SURV.dr, msg)
    if d == 4 or d == 5:
        assert o[0] == "ret" and o[1][0] == F.field(bits, 9, 13), "dr == bits 9-13"
    else:
        assert o == ("raise", "RuntimeError"), "dr rejects DF not in {4,5}"


@harness(("C08", "C14"), inputs={"msg": HexStr((14, 28))}, functions=["pyModeS.decoder.surv.um"],
         body_of=["pyModeS.decoder.surv.um"])
def surv_um_body(msg):
    bits = F.hexbits(msg)
    d = F.df_of(bits)
    o = outcome(SURV.um, msg)
    if d == 4 or d == 5:
        assert o[0] == "ret" and o[1][0] == F.field(bits, 14, 17) and o[1][1] == F.field(bits, 18, 19), \
            "um == (IIS bits 14-17, IDS bits 18-19)"
    else:
        assert o == ("raise", "RuntimeError"), "um rejects DF not in {4,5}"


@harness(("C08", "C14"), inputs={"msg": HexStr((14, 28))}, functions=["pyModeS.decoder.allcall.capability"],
         body_of=["pyModeS.decoder.allcall.capability"])
def allcall_capability_body(msg):
    bits = F.hexbits(msg)
    o = outcome(ALLCALL.capability, msg)
    if F.df_of(bits) == 11:
        assert o[0] == "ret" and o[1][0] == F.field(bits, 6, 8), "capability == CA bits 6-8"
    else:
        assert o == ("raise", "RuntimeError"), "capability rejects DF != 11"


@harness(("C08", "C14"), inputs={"data": BinStr((32, 88)), "r": IntRange(0, 16777215), "case": BinStr((14, 28))},
         functions=["pyModeS.decoder.allcall.interrogator"], body_of=["pyModeS.decoder.allcall.interrogator"])
def allcall_interrogator_body(data, r, case):
    # every frame is data || PI with PI = parity(data) xor r for exactly one 24-bit r
    assume(len(data) + 24 == 4 * len(case))
    msg = hex_of_bits(data + bits_of(crc_spec.REM(data + "0" * 24) ^ r, 24), case)
    if F.df_of(data) == 11:
        assert outcome(ALLCALL.interrogator, msg) == ("ret", ident_spec.interrogator_label(r)), \
            "interrogator == II/SI label of the parity remainder"
    else:
        assert outcome(ALLCALL.interrogator, msg) == ("raise", "RuntimeError"), "interrogator rejects DF != 11"


@harness("C08", inputs={"data": BinStr(32), "cl": IntRange(0, 4), "ic": IntRange(0, 15), "case": BinStr(14)},
         functions=["pyModeS.decoder.allcall.interrogator"])
def allcall_interrogator_roundtrip(data, cl, ic, case):
    # DF11 reply: PI = parity(data) xor (0^17 CL IC)   (Annex 10 Vol IV 3.1.2.5.2.1.3)
    assume(F.df_of(data) == 11)
    assume(cl > 0 or True)
    code = cl * 16 + ic
    pi = crc_spec.REM(data + "0" * 24) ^ code
    msg = hex_of_bits(data + bits_of(pi, 24), case)
    if cl == 0:
        want = "II" + str(ic)
    else:
        want = "SI" + str(16 * (cl - 1) + ic)
    assert ALLCALL.interrogator(msg) == want, "II<IC> for CL=0, SI<16(CL-1)+IC> for CL 1..4"


@harness(("C08", "C13", "C14"), inputs={"msg": HexStr(28)}, functions=["pyModeS.decoder.bds.bds61.emergency_squawk"],
         body_of=["pyModeS.decoder.bds.bds61.emergency_squawk"])
def emergency_squawk_body(msg):
    assert outcome(BDS61.emergency_squawk, msg) == outcome(ident_spec.emergency_squawk, msg), \
        "emergency_squawk == squawk(ME bits 12-24) for TC28, RuntimeError otherwise"
