"""usage: save_seed.py <src dir> <PROP-n> <detection> <how>
copies patch.diff / demo.py / meta.json of a confirmed seeded change to /verif/seeded/<PROP-n>/ and records
how the registered check reacted (the trial log /tmp/seed_<PROP>_<n>.log must exist)."""
import json, os, shutil, sys
src, name, detection, how = sys.argv[1:5]
logfile = sys.argv[5] if len(sys.argv) > 5 else None
prop, n = name.split("-")
dst = os.path.join("/verif/seeded", name)
os.makedirs(dst, exist_ok=True)
for f in ("patch.diff", "demo.py"):
    shutil.copy(os.path.join(src, f), os.path.join(dst, f))
meta = {}
mp = os.path.join(src, "meta.json")
if os.path.exists(mp):
    try:
        meta = json.load(open(mp))
    except Exception:
        meta = {"note": open(mp).read()}
log = open(logfile or "/tmp/seed_%s_%s.log" % (prop, n)).read()
assert "demo on clean tree: exit 0" in log and "36 passed" in log and "demo with patch: exit 1" in log, log[:400]
meta["property"] = prop
meta["confirmed"] = "clean tree: 36 tests pass, demo exit 0; patched tree: 36 tests pass, demo exit 1 (tools/try_seed_wt.py)"
meta["detection"] = detection
meta["how"] = how
lines = [l.strip() for l in log.splitlines()]
rc = [l for l in lines if l.startswith("check %s: exit" % prop)]
meta["ran"] = "./check %s quick on the patched tree -> %s" % (prop, rc[-1] if rc else "?")
fo = [l for l in lines if l.startswith("failed obligation:")]
assert rc and rc[-1].endswith("exit 1"), rc
if fo:
    meta["failed_obligation"] = fo[0][:400]
json.dump(meta, open(os.path.join(dst, "meta.json"), "w"), indent=1)
print("saved", dst)
