"""Symbolic executor / VC generator over the Python AST (DESIGN 2.3).

Stateless path exploration: a harness is re-executed from the start once per path; each
symbolic decision consults a schedule (prefix of earlier decisions), new decision points
push the alternative schedule on a worklist.  Straight-line `if` arms are merged with
If-terms before any decision is taken ("merge first, ask the solver later").
"""
import ast
import copy
from fractions import Fraction
import z3

from . import bits as B
from .values import *  # noqa
from . import values as V
from .solver import PathSolver


# ---------------------------------------------------------------------------------------
# control-flow signals and modelled Python exceptions


class ReturnSignal(Exception):
    def __init__(self, value):
        self.value = value


class BreakSignal(Exception):
    pass


class ContinueSignal(Exception):
    pass


class MergeAbort(Exception):
    pass


class PathInfeasible(Exception):
    pass


class Poison:
    """value of a module-level name whose defining statement could not be executed by the model: any use of the
    name makes the path undecided; definitions that do not depend on it are unaffected"""

    def __init__(self, reason):
        self.reason = reason


class PyExc(Exception):
    """a Python exception raised by the program under analysis"""

    def __init__(self, cls, msg=None):
        Exception.__init__(self, cls)
        self.cls = cls
        self.msg = msg

    def __str__(self):
        return "%s(%s)" % (self.cls, self.msg if isinstance(self.msg, str) else "")


EXC_PARENTS = {
    "BaseException": None,
    "Exception": "BaseException",
    "RuntimeError": "Exception",
    "NotImplementedError": "RuntimeError",
    "ValueError": "Exception",
    "TypeError": "Exception",
    "LookupError": "Exception",
    "KeyError": "LookupError",
    "IndexError": "LookupError",
    "NameError": "Exception",
    "UnboundLocalError": "NameError",
    "ArithmeticError": "Exception",
    "ZeroDivisionError": "ArithmeticError",
    "OverflowError": "ArithmeticError",
    "AssertionError": "Exception",
    "AttributeError": "Exception",
    "ImportError": "Exception",
    "StopIteration": "Exception",
    "OSError": "Exception",
    "Again": "Exception",
}


def exc_isinstance(cls, parent):
    while cls is not None:
        if cls == parent:
            return True
        cls = EXC_PARENTS.get(cls, "Exception" if cls not in EXC_PARENTS else None)
    return False


class ExcClass:
    """value of an exception class name such as RuntimeError"""

    def __init__(self, name):
        self.name = name

    def __repr__(self):
        return "<exc %s>" % self.name


class ExcValue:
    def __init__(self, cls, args):
        self.cls = cls
        self.args = args


# ---------------------------------------------------------------------------------------
# program entities


class FuncValue:
    def __init__(self, node, module, env, qualname, defaults, kwdefaults):
        self.node = node
        self.module = module
        self.env = env  # defining environment (closure)
        self.qualname = qualname
        self.defaults = defaults
        self.kwdefaults = kwdefaults
        self.locals_names = None

    def __repr__(self):
        return "<func %s>" % self.qualname


class BoundMethod:
    def __init__(self, func, self_obj):
        self.func = func
        self.self_obj = self_obj


class ClassValue:
    def __init__(self, name, bases, attrs, qualname):
        self.name = name
        self.bases = bases
        self.attrs = attrs
        self.qualname = qualname

    def lookup(self, name):
        if name in self.attrs:
            return self.attrs[name]
        for b in self.bases:
            if isinstance(b, ClassValue):
                r = b.lookup(name)
                if r is not None:
                    return r
        return None

    def __repr__(self):
        return "<class %s>" % self.qualname


class StaticMethod:
    def __init__(self, fn):
        self.fn = fn


class ClassMethod:
    def __init__(self, fn):
        self.fn = fn


class Builtin:
    """a modelled builtin / library function: fn(engine, args, kwargs)"""

    def __init__(self, name, fn):
        self.name = name
        self.fn = fn

    def __repr__(self):
        return "<builtin %s>" % self.name


class ModuleValue:
    def __init__(self, name, path=None):
        self.name = name
        self.path = path
        self.globals = {}
        self.is_package = False

    def __repr__(self):
        return "<module %s>" % self.name


class StubModule:
    """external module with a fixed table of modelled members"""

    def __init__(self, name, members):
        self.name = name
        self.members = members

    def __repr__(self):
        return "<stub %s>" % self.name


class Env:
    __slots__ = ("vars", "parent", "localnames")

    def __init__(self, parent=None, localnames=None):
        self.vars = {}
        self.parent = parent
        self.localnames = localnames


class _Unbound:
    def __repr__(self):
        return "UNBOUND"


UNBOUND = _Unbound()


class Iterator:
    """generator-expression result / next() support over a precomputed list"""

    def __init__(self, items):
        self.items = list(items)
        self.pos = 0


# ---------------------------------------------------------------------------------------


def _has_unbound(v):
    if v is UNBOUND:
        return True
    if isinstance(v, SIte):
        return _has_unbound(v.a) or _has_unbound(v.b)
    return False


def _unbound_cond(v):
    if v is UNBOUND:
        return True
    if isinstance(v, SIte):
        return c_or(c_and(v.c, _unbound_cond(v.a)), c_and(c_not(v.c), _unbound_cond(v.b)))
    return False


def _prune_unbound(v):
    if isinstance(v, SIte):
        a, b = _prune_unbound(v.a), _prune_unbound(v.b)
        if a is UNBOUND:
            return b
        if b is UNBOUND:
            return a
        return SIte(v.c, a, b)
    return v


import os as _os
DEBUG_DECISIONS = {} if _os.environ.get("VC_DEBUG_DECISIONS") else None
_LUT_CACHE = {}
_TRANSCENDENTAL = {"cos", "sin", "arccos", "exp", "sqrt", "pow", "atan2", "log10"}


def _has_transcendental(goal, pc):
    seen = set()
    stack = [goal] + list(pc)
    while stack:
        e = stack.pop()
        i = e.get_id()
        if i in seen:
            continue
        seen.add(i)
        if z3.is_app(e):
            if e.decl().kind() == z3.Z3_OP_UNINTERPRETED and e.num_args() > 0 and e.decl().name() in _TRANSCENDENTAL:
                return True
            stack.extend(e.children())
    return False


class Obligation:
    def __init__(self, label):
        self.label = label
        self.results = []  # (status, seconds, backend, model_inputs, detail)


class Engine:
    MAX_LOOP = 200000

    def __init__(self, loader, contracts=None, timeout_ms=20000):
        self.loader = loader
        self.contracts = contracts or {}
        self.timeout_ms = timeout_ms
        self.ps = None
        self.sched = []
        self.trace = []
        self.worklist = []
        self.merge_depth = 0
        self.heap = []
        self.frames = []
        self.check_results = []   # per path: list of dicts
        self.inputs = {}          # name -> symbolic input value (for model extraction)
        self.input_decoders = {}
        self.no_contract_for = set()
        self.stats = {"paths": 0, "decisions": 0, "merges": 0, "merge_aborts": 0}
        self.trusted = set()      # uninterpreted functions / axioms actually used
        self.call_depth = 0
        self.side_obligations = []
        self.axioms = []
        self.current_label = None
        self.contract_uses = {}
        self._aff_mark = 0
        self.backend = "z3"
        self.real_boxes = {}
        self.merge_marks = []     # (call depth, loop depth) at which each speculative region started
        self.loop_depth = 0
        self.func_stack = []
        self.cur_line = 0
        self.spec_conds = []

    # -------------------------------------------------------------- path exploration
    def explore(self, run_once, max_paths=5000):
        """run_once() executes the harness along one path.  Returns list of path records"""
        self.worklist = [[]]
        records = []
        import os as _os
        import time as _time
        t_begin = _time.time()
        wall_budget = float(_os.environ.get("VC_CASE_SECONDS", "900"))
        while self.worklist:
            if len(records) >= max_paths:
                records.append({"status": "unsupported", "detail": "path budget exhausted (%d)" % max_paths,
                                "checks": []})
                break
            if _time.time() - t_begin > wall_budget:
                # a case that does not finish within its wall-clock budget is undecided (bounded stand-in)
                records.append({"status": "unsupported", "checks": [],
                                "detail": "time budget of the case exhausted (%d s, %d paths explored)" % (wall_budget, len(records))})
                break
            self.sched = self.worklist.pop()
            self.trace = []
            self.ps = PathSolver()
            self.merge_depth = 0
            self.merge_marks = []
            self.loop_depth = 0
            self.call_depth = 0
            self.func_stack = []
            self.spec_conds = []
            self.heap = []
            self.frames = []
            self.check_results = []
            self.inputs = {}
            B.reset()
            for ax in self.axioms:
                self.ps.add(ax)
            rec = {"checks": self.check_results}
            try:
                out = run_once()
                rec["status"] = "ok"
                rec["result"] = out
            except PathInfeasible:
                if not self.check_results:
                    continue
                rec["status"] = "ok"
                rec["result"] = None
            except PyExc as e:
                rec["status"] = "raise"
                rec["exc"] = e.cls
                rec["detail"] = str(e.msg)
                try:
                    if self.ps.s.check() == z3.sat:
                        rec["model"] = self.extract_inputs(self.ps.s.model())
                except Exception:
                    pass
            except Unsupported as u:
                rec["status"] = "unsupported"
                rec["detail"] = str(u)
            except MergeAbort:
                rec["status"] = "unsupported"
                rec["detail"] = "stray MergeAbort"
            except RecursionError:
                rec["status"] = "unsupported"
                rec["detail"] = "recursion limit"
            except (KeyboardInterrupt, SystemExit, MemoryError):
                raise
            except Exception as ex:
                # a construct the model trips over: this path is undecided (bounded stand-in), never a verdict
                import traceback as _tb
                last = _tb.extract_tb(ex.__traceback__)[-1]
                rec["status"] = "unsupported"
                rec["detail"] = "engine internal error: %s: %s (%s:%d)" % (type(ex).__name__, str(ex)[:200],
                                                                          last.filename.rsplit("/", 1)[-1], last.lineno)
            rec["decisions"] = list(self.trace)
            rec["solver_time"] = self.ps.time
            rec["queries"] = self.ps.nqueries
            self.stats["paths"] += 1
            records.append(rec)
        return records

    def assume(self, cond):
        c = self.truth(cond)
        if c is True:
            return
        if c is False:
            raise PathInfeasible()
        if self.merge_depth:
            raise MergeAbort()
        self.ps.add(c)
        # no feasibility check here: an infeasible pc proves everything vacuously, the
        # driver's vacuity guard (a `sat` query on the assumptions) catches that case

    def decide(self, cond):
        if isinstance(cond, bool):
            return cond
        cond = z3.simplify(cond)
        if z3.is_true(cond):
            return True
        if z3.is_false(cond):
            return False
        if self.merge_depth:
            raise MergeAbort()
        if DEBUG_DECISIONS is not None:
            key = "%s:%d" % (self.func_stack[-1] if self.func_stack else "?", self.cur_line)
            DEBUG_DECISIONS[key] = DEBUG_DECISIONS.get(key, 0) + 1
        i = len(self.trace)
        if i < len(self.sched):
            d = self.sched[i]
        else:
            can_t = self.ps.feasible(cond)
            can_f = self.ps.feasible(z3.Not(cond))
            self.stats["decisions"] += 1
            if can_t and can_f:
                d = True
                self.worklist.append(self.trace + [False])
            elif can_t:
                d = True
            elif can_f:
                d = False
            else:
                raise PathInfeasible()
        self.trace.append(d)
        self.ps.add(cond if d else z3.Not(cond))
        return d

    def concretize_int(self, v, what="value"):
        """python int for a value that the path condition pins to a single value;
        forks over the feasible values of small finite ranges otherwise"""
        v = self.force(v)
        if isinstance(v, bool):
            return int(v)
        if isinstance(v, int):
            return v
        if not isinstance(v, SInt):
            raise Unsupported("cannot concretize %r" % (v,))
        if self.merge_depth:
            raise MergeAbort()
        lo, hi = v.lo, v.hi
        tried = 0
        while True:
            mv = self.ps.model_value(v.term)
            if mv is None:
                raise PathInfeasible()
            k = mv.as_long()
            if self.decide(v.term == k):
                return k
            tried += 1
            if tried > 80:
                raise Unsupported("concretize: too many values for %s" % what)

    # -------------------------------------------------------------- proof obligations
    def check(self, cond, label):
        """prove cond under the current path condition; record; then assume it"""
        c = self.truth(cond)
        if self.merge_depth:
            raise MergeAbort()
        status = None
        if self.backend == "ivbb" and c is not True and c is not False and _has_transcendental(c, self.ps.pc):
            from . import ivbb
            import time as _t
            t0 = _t.time()
            st, info = ivbb.prove(self.ps.pc, c, self.real_boxes, budget_s=max(10, self.timeout_ms / 1000.0))
            secs = _t.time() - t0
            backend = "ivbb"
            model = None
            self.trusted.add("A3: numpy/libm elementary functions within 4 ulp, + - * / correctly rounded (interval "
                             "enclosures widened accordingly); mpmath interval arithmetic")
            if st == "proved":
                status = "proved"
            elif st == "refuted":
                status = "refuted"
                from fractions import Fraction as _F
                rec_model = {}
                for n, dec in self.input_decoders.items():
                    if n in info["witness"]:
                        rec_model[n] = {"frac": str(_F(info["witness"][n]))}
                    else:
                        try:
                            rec_model[n] = dec(None)        # Choice / fixed inputs ignore the model
                        except Exception:
                            rec_model[n] = "<not part of the interval witness>"
                rec = {"label": label, "status": status, "seconds": round(secs, 4), "backend": backend,
                       "model": rec_model}
                self.check_results.append(rec)
                return status
            else:
                # z3 may still prove it with the functions uninterpreted (sound); its `sat` is not
                # meaningful for uninterpreted transcendental functions
                status2, model2, secs2, backend2 = self.ps.prove(c, min(self.timeout_ms, 10000))
                secs += secs2
                if status2 == "proved":
                    status, backend = "proved", backend2
                else:
                    status, backend = "unknown", "ivbb+z3"
                    self.check_results.append({"label": label, "status": "unknown", "seconds": round(secs, 4),
                                               "backend": backend, "detail": info})
                    self.ps.add(c)
                    return status
        if status is None:
            status, model, secs, backend = self.ps.prove(c, self.timeout_ms)
        if backend == "trivial":
            # decided without a solver call: by GF(2)-affine normal forms (bits.py) when the
            # comparison went through the bit domain, else by term identity after simplification
            backend = "gf2" if B.STATS["aff_eq"] > self._aff_mark else "syntactic"
        self._aff_mark = B.STATS["aff_eq"]
        rec = {"label": label, "status": status, "seconds": round(secs, 4), "backend": backend}
        if status == "refuted":
            rec["model"] = self.extract_inputs(model)
        self.check_results.append(rec)
        if c is False and status == "proved":
            # "false" was proved: the path condition is unsatisfiable (an infeasible path that the
            # cheap feasibility check could not prune) - nothing further can happen on it
            raise PathInfeasible()
        if c is not True and status != "refuted":
            self.ps.add(c if c is not False else z3.BoolVal(False))
        return status

    def extract_inputs(self, model):
        out = {}
        for name, dec in self.input_decoders.items():
            try:
                out[name] = dec(model)
            except Exception as e:  # pragma: no cover
                out[name] = "<undecodable: %s>" % e
        return out

    # -------------------------------------------------------------- snapshots / merging
    def snapshot(self):
        frames = [dict(f.vars) for f in self.frames]
        contents = []
        for o in self.heap:
            if isinstance(o, SList):
                contents.append(list(o.items))
            elif isinstance(o, SDict):
                contents.append(dict(o.d))
            elif isinstance(o, SObject):
                contents.append(dict(o.attrs))
            elif isinstance(o, Iterator):
                contents.append(o.pos)
            else:
                contents.append(None)
        return (frames, contents, list(self.heap))

    @staticmethod
    def _set_content(o, h):
        if isinstance(o, SList):
            o.items = list(h)
        elif isinstance(o, SDict):
            o.d = dict(h)
        elif isinstance(o, SObject):
            o.attrs = dict(h)
        elif isinstance(o, Iterator):
            o.pos = h

    def restore(self, snap):
        frames, contents, objs = snap
        for f, vs in zip(self.frames, frames):
            f.vars.clear()
            f.vars.update(vs)
        self.heap = list(objs)
        for o, h in zip(objs, contents):
            self._set_content(o, h)

    def merge_begin(self):
        self.merge_depth += 1
        self.merge_marks.append((self.call_depth, self.loop_depth))

    def merge_end(self):
        self.merge_depth -= 1
        self.merge_marks.pop()

    def jump_crosses_merge(self, is_return):
        """would a return / break / continue leave the innermost speculative region?"""
        if not self.merge_marks:
            return False
        cd, ld = self.merge_marks[-1]
        if is_return:
            return self.call_depth <= cd
        return self.call_depth <= cd and self.loop_depth <= ld

    def new_heap(self, o):
        self.heap.append(o)
        return o

    def merge_states(self, c, snapA, snapB, base):
        """current state := ite(c, A, B) over the objects that existed at `base`;
        objects allocated inside an arm keep their identity and content.
        Raises MergeAbort when shapes differ."""
        framesA, contA, objsA = snapA
        framesB, contB, objsB = snapB
        n0 = len(base[2])
        merged_frames = []
        for va, vb in zip(framesA, framesB):
            merged = {}
            for k in set(va) | set(vb):
                merged[k] = self.vmerge(c, va.get(k, UNBOUND), vb.get(k, UNBOUND))
            merged_frames.append(merged)
        merged_heap = []
        for idx in range(n0):
            o = base[2][idx]
            a, b = contA[idx], contB[idx]
            if isinstance(o, SList):
                if len(a) != len(b):
                    raise MergeAbort()
                merged_heap.append([self.vmerge(c, x, y) for x, y in zip(a, b)])
            elif isinstance(o, (SDict, SObject)):
                keys = set(a) | set(b)
                merged_heap.append({k: self.vmerge(c, a.get(k, UNBOUND), b.get(k, UNBOUND)) for k in keys})
                if isinstance(o, SDict) and set(a) != set(b):
                    raise MergeAbort()
            elif isinstance(o, Iterator):
                if a != b:
                    raise MergeAbort()
                merged_heap.append(a)
            else:
                merged_heap.append(None)
        # commit
        for f, m in zip(self.frames, merged_frames):
            f.vars.clear()
            f.vars.update(m)
        for idx in range(n0):
            self._set_content(base[2][idx], merged_heap[idx])
        newA = objsA[n0:]
        newB = objsB[n0:]
        for o, h in zip(newA, contA[n0:]):
            self._set_content(o, h)
        for o, h in zip(newB, contB[n0:]):
            self._set_content(o, h)
        self.heap = list(base[2]) + newA + newB

    def vmerge(self, c, a, b):
        if a is b:
            return a
        ta, tb = type(a), type(b)
        if isinstance(a, (int, Fraction, SInt, SReal)) and not isinstance(a, bool) and \
           isinstance(b, (int, Fraction, SInt, SReal)) and not isinstance(b, bool):
            if is_concrete_num(a) and is_concrete_num(b) and a == b and ta == tb:
                return a
            a_int = isinstance(a, (int, SInt))
            b_int = isinstance(b, (int, SInt))
            if a_int and b_int:
                ca, cb = int_cells(a), int_cells(b)
                a_bits = isinstance(a, int) and a >= 0 or isinstance(a, SInt) and a.cells is not None
                b_bits = isinstance(b, int) and b >= 0 or isinstance(b, SInt) and b.cells is not None
                if ca is not None and cb is not None and a_bits and b_bits:
                    w = max(len(ca), len(cb))
                    ca = [0] * (w - len(ca)) + ca
                    cb = [0] * (w - len(cb)) + cb
                    cb_ = self.cond_bit(c)
                    cells = [B.bite(cb_, V.cell_bit(x), V.cell_bit(y)) for x, y in zip(ca, cb)]
                    r = int_from_cells(cells)
                    a_expl = isinstance(a, int) or a._term is not None
                    b_expl = isinstance(b, int) or b._term is not None
                    if a_expl and b_expl and isinstance(r, SInt):
                        # both sides have an arithmetic view that does not come from their bits:
                        # keep it as a plain If-term (the bit view stays available for bit operations)
                        la, ha = bounds(a)
                        lb, hb = bounds(b)
                        r = SInt(z3.If(c, to_z3_num(a)[0], to_z3_num(b)[0]), r.cells, min(la, lb), max(ha, hb))
                    return r
                la, ha = bounds(a)
                lb, hb = bounds(b)
                lo = min(la, lb) if la is not None and lb is not None else None
                hi = max(ha, hb) if ha is not None and hb is not None else None
                return SInt(z3.If(c, to_z3_num(a)[0], to_z3_num(b)[0]), None, lo, hi)
            return SReal(z3.If(c, to_real(a), to_real(b)))
        if isinstance(a, (bool, SBool)) and isinstance(b, (bool, SBool)):
            if isinstance(a, bool) and isinstance(b, bool) and a == b:
                return a
            ca, cb = cond_of(a), cond_of(b)
            za = z3.BoolVal(ca) if isinstance(ca, bool) else ca
            zb = z3.BoolVal(cb) if isinstance(cb, bool) else cb
            return mk_bool(z3.If(c, za, zb))
        if a is None and b is None:
            return None
        if a is UNBOUND and b is UNBOUND:
            return UNBOUND
        if isinstance(a, str) and isinstance(b, str) and a == b:
            return a
        if isinstance(a, (str, SBin)) and isinstance(b, (str, SBin)) and len(a) == len(b):
            ca = V.str_to_cells(a) if isinstance(a, str) else a.cells
            cb = V.str_to_cells(b) if isinstance(b, str) else b.cells
            if ca is not None and cb is not None:
                cb_ = B.cond_to_bit(c)
                return sbin_or_str([B.bite(cb_, V.cell_bit(x), V.cell_bit(y)) for x, y in zip(ca, cb)])
        if self.is_strlike(a) and self.is_strlike(b) and not isinstance(a, SStr) and not isinstance(b, SStr):
            try:
                la_, lb_ = self.seq_len(a), self.seq_len(b)
            except Unsupported:
                la_, lb_ = -1, -2
            if la_ == lb_ == 1:
                return self.vmerge_index(c, a, b)
        if isinstance(a, tuple) and isinstance(b, tuple) and len(a) == len(b):
            return tuple(self.vmerge(c, x, y) for x, y in zip(a, b))
        if isinstance(a, (FuncValue, Builtin, ClassValue, ModuleValue, StubModule)) and a is b:
            return a
        if isinstance(a, SIte) and a.b is b:
            # ite(c, ite(c2, x, b), b) = ite(c&c2, x, b)
            return SIte(z3.And(c, a.c), a.a, b)
        try:
            if a == b and ta == tb and not isinstance(a, Sym):
                return a
        except Exception:
            pass
        return SIte(c, a, b)

    def cond_bit(self, c):
        """bit for a merge condition.  A condition that mentions exactly one primitive frame bit x and is
        equivalent to x (or to not x) under the path condition - e.g. "first sample of the pulse pair >=
        second" for a pair built from bit x - is replaced by that bit, so that XOR-closed reasoning (CRC)
        downstream stays in the affine domain.  Two solver queries; sound (equivalence is proved)."""
        b = B.cond_to_bit(c)
        if not isinstance(b, B.ZB):
            return b
        names = set()
        stack = [b.e]
        seen = set()
        while stack and len(names) <= 1:
            e = stack.pop()
            i = e.get_id()
            if i in seen:
                continue
            seen.add(i)
            if z3.is_const(e) and z3.is_bool(e) and e.decl().kind() == z3.Z3_OP_UNINTERPRETED:
                names.add(e.decl().name())
            else:
                stack.extend(e.children())
        if len(names) == 0:
            # no frame bit involved: the condition may simply be implied (or refuted) by the path condition
            if not self.feasible_spec(z3.Not(b.e)):
                return 1
            if not self.feasible_spec(b.e):
                return 0
            return b
        if len(names) != 1:
            return b
        idx = B._BYNAME.get(next(iter(names)))
        if idx is None:
            return b
        x = B.Aff(1 << idx, 0)
        xz = B.to_z3(x)
        if not self.feasible_spec(z3.Xor(b.e, xz)):
            return x
        if not self.feasible_spec(z3.Not(z3.Xor(b.e, xz))):
            return B.bnot(x)
        return b

    def force(self, v):
        """resolve generic merges by forking"""
        while isinstance(v, SIte):
            v = v.a if self.decide(v.c) else v.b
        if v is UNBOUND:
            raise PyExc("UnboundLocalError", "local variable referenced before assignment")
        return v

    # -------------------------------------------------------------- truthiness
    def truth(self, v):
        if isinstance(v, bool):
            return v
        if isinstance(v, SBool):
            return v.e
        if z3.is_expr(v) and z3.is_bool(v):
            return v
        if v is None:
            return False
        if isinstance(v, int):
            return v != 0
        if isinstance(v, Fraction):
            return v != 0
        if isinstance(v, SInt):
            if v.cells is not None and v._term is None and all(not isinstance(x, IRef) for x in v.cells):
                conds = []
                for x in v.cells:
                    xb = B.norm(x)
                    if isinstance(xb, int):
                        if xb:
                            return True
                        continue
                    conds.append(B.to_z3(xb))
                return c_or(*conds)
            return v.term != 0
        if isinstance(v, SReal):
            return v.term != 0
        if isinstance(v, (str, SBin, SHex)):
            return len(v) > 0
        if isinstance(v, SStr):
            n = v.known_len()
            if n is not None:
                return n > 0
            for p in v.pieces:
                if isinstance(p, (StrOfInt, SChr)) or (isinstance(p, str) and p):
                    return True
            raise Unsupported("truth of SStr")
        if isinstance(v, (tuple, list)):
            return len(v) > 0
        if isinstance(v, SList):
            return len(v.items) > 0
        if isinstance(v, SDict):
            return len(v.d) > 0
        if isinstance(v, SIte):
            ta = self.truth(v.a)
            tb = self.truth(v.b)
            return c_or(c_and(v.c, ta), c_and(c_not(v.c), tb))
        if isinstance(v, (FuncValue, Builtin, ClassValue, SObject, ModuleValue)):
            return True
        if isinstance(v, Opaque):
            self.trusted.add("truth(%s) uninterpreted" % v.name)
            return self.uf_bool("truth_" + v.name, v.args)
        if v is UNBOUND:
            raise PyExc("UnboundLocalError", "truth of unbound")
        raise Unsupported("truth of %r" % (v,))

    def uf_bool(self, name, args):
        return z3.Bool("%s(%s)" % (name, ",".join(self.term_key(a) for a in args)))

    def term_key(self, a):
        if isinstance(a, SInt):
            return str(a.term)
        if isinstance(a, SReal):
            return str(a.term)
        if isinstance(a, SBool):
            return str(a.e)
        if isinstance(a, (SBin, SHex)):
            return "|".join(repr(c) for c in a.cells)
        if isinstance(a, Opaque):
            return a.name + "(" + ",".join(self.term_key(x) for x in a.args) + ")"
        return repr(a)

    # -------------------------------------------------------------- equality
    def veq(self, a, b):
        """condition for Python a == b"""
        if isinstance(a, SIte):
            return c_or(c_and(a.c, self.veq(a.a, b)), c_and(c_not(a.c), self.veq(a.b, b)))
        if isinstance(b, SIte):
            return c_or(c_and(b.c, self.veq(a, b.a)), c_and(c_not(b.c), self.veq(a, b.b)))
        if a is UNBOUND or b is UNBOUND:
            raise PyExc("UnboundLocalError", "comparison of unbound")
        if a is None or b is None:
            return a is None and b is None
        an = isinstance(a, (bool, int, Fraction, SInt, SReal, SBool))
        bn = isinstance(b, (bool, int, Fraction, SInt, SReal, SBool))
        if an and bn:
            if isinstance(a, (bool, int, Fraction)) and isinstance(b, (bool, int, Fraction)):
                return a == b
            if isinstance(a, (bool, SBool)) and isinstance(b, (bool, SBool)):
                ca, cb = cond_of(a), cond_of(b)
                if isinstance(ca, bool):
                    return cb if ca else c_not(cb)
                if isinstance(cb, bool):
                    return ca if cb else c_not(ca)
                return ca == cb
            # exact bit views: compare in the bit domain when both have one
            if isinstance(a, (int, SInt)) and isinstance(b, (int, SInt)) and not isinstance(a, bool) \
               and not isinstance(b, bool):
                ca = int_cells(a) if (isinstance(a, int) or a.cells is not None) else None
                cb = int_cells(b) if (isinstance(b, int) or b.cells is not None) else None
                if ca is not None and cb is not None and not (isinstance(a, int) and isinstance(b, int)):
                    allbits = all(not isinstance(x, IRef) for x in ca + cb)
                    if allbits:
                        w = max(len(ca), len(cb))
                        ca = [0] * (w - len(ca)) + ca
                        cb = [0] * (w - len(cb)) + cb
                        return c_and(*[B.beq_cond(x, y) for x, y in zip(ca, cb)])
            ta, ia = to_z3_num(a)
            tb, ib = to_z3_num(b)
            if ia != ib:
                ta, tb = to_real(a), to_real(b)
            return ta == tb
        if an != bn:
            if isinstance(a, Opaque) or isinstance(b, Opaque):
                raise Unsupported("equality with opaque value")
            return False
        if isinstance(a, Opaque) or isinstance(b, Opaque):
            if isinstance(a, Opaque) and isinstance(b, Opaque) and a.name == b.name and len(a.args) == len(b.args):
                return c_and(*[self.veq(x, y) for x, y in zip(a.args, b.args)])
            raise Unsupported("equality with opaque value")
        if self.is_strlike(a) and self.is_strlike(b):
            return self.str_eq(a, b)
        if self.is_strlike(a) != self.is_strlike(b):
            return False
        if isinstance(a, (tuple, list, SList)) and isinstance(b, (tuple, list, SList)):
            ia_ = a.items if isinstance(a, SList) else a
            ib_ = b.items if isinstance(b, SList) else b
            if isinstance(a, tuple) != isinstance(b, tuple):
                return False
            if len(ia_) != len(ib_):
                return False
            conds = []
            pending = None
            for x, y in zip(ia_, ib_):
                try:
                    cnd = self.veq(x, y)
                except Unsupported as u:
                    pending = u
                    continue
                if cnd is False:
                    return False          # decided by another component, whatever the unsupported one is
                conds.append(cnd)
            if pending is not None:
                raise pending
            return c_and(*conds)
        if isinstance(a, (SDict, dict)) and isinstance(b, (SDict, dict)):
            da = a.d if isinstance(a, SDict) else a
            db = b.d if isinstance(b, SDict) else b
            if set(da) != set(db):
                return False
            return c_and(*[self.veq(da[k], db[k]) for k in da])
        if isinstance(a, SSet) or isinstance(b, SSet):
            return self.set_eq(a, b)
        if isinstance(a, (set, frozenset)) and isinstance(b, (set, frozenset)):
            return a == b
        if isinstance(a, (FuncValue, ClassValue, Builtin, ModuleValue, SObject, ExcClass)) or \
           isinstance(b, (FuncValue, ClassValue, Builtin, ModuleValue, SObject, ExcClass)):
            return a is b
        if type(a) != type(b):
            return False
        raise Unsupported("equality of %r and %r" % (type(a), type(b)))

    @staticmethod
    def is_strlike(v):
        return isinstance(v, (str, SBin, SHex, SStr, SChr))

    def char_code(self, ch):
        """code point (int | z3 Int) of a 1-char string value"""
        if isinstance(ch, str):
            return ord(ch)
        if isinstance(ch, SChr):
            return ch.code
        if isinstance(ch, SBin):
            b = V.cell_bit(ch.cells[0])
            if isinstance(b, int):
                return 48 + b
            return z3.If(B.to_z3(b), z3.IntVal(49), z3.IntVal(48))
        if isinstance(ch, SHex):
            nib = cells_to_int(ch.cells)
            up = ch.upper[0]
            if isinstance(nib, int):
                if nib < 10:
                    return 48 + nib
                if isinstance(up, bool):
                    return (55 if up else 87) + nib
                return z3.If(up, z3.IntVal(55 + nib), z3.IntVal(87 + nib))
            upz = z3.BoolVal(up) if isinstance(up, bool) else up
            return z3.If(nib < 10, nib + 48, z3.If(upz, nib + 55, nib + 87))
        raise Unsupported("char_code of %r" % (ch,))

    def str_chars(self, s):
        if isinstance(s, str):
            return list(s)
        if isinstance(s, SChr):
            return [s]
        if isinstance(s, SBin):
            return [SBin([c]) for c in s.cells]
        if isinstance(s, SHex):
            return [SHex(s.cells[4 * i : 4 * i + 4], s.upper[i : i + 1]) for i in range(len(s))]
        if isinstance(s, SStr):
            return s.chars()
        return None

    def str_eq(self, a, b):
        if isinstance(a, str) and isinstance(b, str):
            return a == b
        # fast paths
        if isinstance(a, (str, SBin)) and isinstance(b, (str, SBin)):
            if len(a) != len(b):
                return False
            ca = V.str_to_cells(a) if isinstance(a, str) else a.cells
            cb = V.str_to_cells(b) if isinstance(b, str) else b.cells
            if ca is None or cb is None:
                return False
            return c_and(*[B.beq_cond(V.cell_bit(x), V.cell_bit(y)) for x, y in zip(ca, cb)])
        if isinstance(a, SHex) and isinstance(b, SHex):
            if len(a) != len(b):
                return False
            conds = []
            for i in range(len(a)):
                na, nb = a.cells[4 * i : 4 * i + 4], b.cells[4 * i : 4 * i + 4]
                conds.append(c_and(*[B.beq_cond(V.cell_bit(x), V.cell_bit(y)) for x, y in zip(na, nb)]))
                ua, ub = a.upper[i], b.upper[i]
                if not (isinstance(ua, bool) and isinstance(ub, bool) and ua == ub) and not (ua is ub):
                    # case matters only for letter digits (nibble >= 10): b3 & (b2 | b1)
                    n3, n2, n1 = (V.cell_bit(x) for x in na[:3])
                    isletter = B.band(n3, B.bor(n2, n1))
                    if isletter != 0:
                        ceq = (ua == ub) if isinstance(ua, bool) and isinstance(ub, bool) else (
                            (ub if ua else z3.Not(ub)) if isinstance(ua, bool) else
                            (ua if ub else z3.Not(ua)) if isinstance(ub, bool) else (ua == ub))
                        il = True if isletter == 1 else B.to_z3(isletter)
                        conds.append(c_or(c_not(il), ceq))
            return c_and(*conds)
        ca, cb = self.str_chars(a), self.str_chars(b)
        if ca is not None and cb is not None:
            if len(ca) != len(cb):
                return False
            conds = []
            for x, y in zip(ca, cb):
                if isinstance(x, str) and isinstance(y, str):
                    if x != y:
                        return False
                    continue
                if isinstance(x, SHex) and isinstance(y, SHex):
                    conds.append(self.str_eq(x, y))
                    continue
                if isinstance(x, str) and isinstance(y, SChr) and y.lut is not None:
                    x, y = y, x
                if isinstance(x, SChr) and x.lut is not None and isinstance(y, str):
                    t, lo_, codes = x.lut
                    hits = [lo_ + k for k, cd in enumerate(codes) if cd == ord(y)]
                    if not hits:
                        return False
                    if len(hits) == len(codes):
                        continue
                    miss = [lo_ + k for k, cd in enumerate(codes) if cd != ord(y)]
                    if len(hits) <= len(miss):
                        conds.append(c_or(*[t == k for k in hits]))
                    else:
                        conds.append(c_and(*[t != k for k in miss]))
                    continue
                cx, cy = self.char_code(x), self.char_code(y)
                if isinstance(cx, int) and isinstance(cy, int):
                    if cx != cy:
                        return False
                    continue
                conds.append(cx == cy)
            return c_and(*conds)
        # variable-length pieces: align structurally
        pa = a.pieces if isinstance(a, SStr) else [a]
        pb = b.pieces if isinstance(b, SStr) else [b]
        return self.pieces_eq(pa, pb)

    def pieces_eq(self, pa, pb):
        if len(pa) == len(pb):
            conds = []
            ok = True
            for x, y in zip(pa, pb):
                if isinstance(x, StrOfInt) and isinstance(y, StrOfInt):
                    conds.append(self.veq(x.val, y.val))
                elif isinstance(x, StrOfInt) or isinstance(y, StrOfInt):
                    ok = False
                    break
                else:
                    conds.append(self.str_eq(x, y))
            if ok:
                return c_and(*conds)
        # literal prefixes / suffixes that disagree decide inequality without looking at the
        # variable-length parts
        def lead(ps):
            out = ""
            for p_ in ps:
                if isinstance(p_, str):
                    out += p_
                else:
                    break
            return out

        def trail(ps):
            out = ""
            for p_ in reversed(ps):
                if isinstance(p_, str):
                    out = p_ + out
                else:
                    break
            return out
        la_, lb_ = lead(pa), lead(pb)
        k_ = min(len(la_), len(lb_))
        if la_[:k_] != lb_[:k_]:
            return False
        ta_, tb_ = trail(pa), trail(pb)
        k_ = min(len(ta_), len(tb_))
        if k_ and ta_[len(ta_) - k_:] != tb_[len(tb_) - k_:]:
            return False
        # a decimal integer never contains a non-digit: a literal on one side that must align
        # with str(int) on the other side (same literal prefix consumed) decides inequality
        if len(pa) >= 1 and len(pb) >= 1:
            ra, rb = mkstr(pa), mkstr(pb)
            if isinstance(ra, str) and not isinstance(rb, str):
                ra, rb, pa, pb = rb, ra, pb, pa
            if isinstance(rb, str) and isinstance(ra, SStr):
                # ra = lit + str(int) [+ lit]: rb must be lit + digits(+/-) + lit
                pieces = ra.pieces
                if len(pieces) in (2, 3) and isinstance(pieces[0], str) and isinstance(pieces[1], StrOfInt) and \
                   (len(pieces) == 2 or isinstance(pieces[2], str)):
                    pre = pieces[0]
                    suf = pieces[2] if len(pieces) == 3 else ""
                    if not (rb.startswith(pre) and rb.endswith(suf) and len(rb) >= len(pre) + len(suf)):
                        return False
                    mid = rb[len(pre): len(rb) - len(suf)]
                    try:
                        k = int(mid)
                    except ValueError:
                        return False
                    if str(k) != mid:
                        return False
                    return self.veq(pieces[1].val, k)
        # a single StrOfInt with small range against a concrete string etc.: expand
        def expand(ps):
            for i, p in enumerate(ps):
                if isinstance(p, StrOfInt):
                    lo, hi = bounds(p.val)
                    if lo is not None and hi is not None and hi - lo <= 200:
                        return i, lo, hi
                    raise Unsupported("str(int) with unbounded range in comparison")
            return None
        e = expand(pa)
        if e is not None:
            i, lo, hi = e
            conds = []
            for k in range(lo, hi + 1):
                ck = self.veq(pa[i].val, k)
                if ck is False:
                    continue
                rest = SStr(pa[:i] + [str(k)] + pa[i + 1:])
                conds.append(c_and(ck, self.pieces_eq(rest.pieces, pb)))
            return c_or(*conds)
        e = expand(pb)
        if e is not None:
            return self.pieces_eq(pb, pa)
        # no StrOfInt left: char compare
        sa, sb = mkstr(pa), mkstr(pb)
        return self.str_eq(sa, sb)

    def set_eq(self, a, b):
        def norm(s):
            if isinstance(s, SSet):
                return s
            if isinstance(s, (set, frozenset)):
                return SSet(items=frozenset(s))
            raise Unsupported("set equality")
        a, b = norm(a), norm(b)
        if a.items is not None and b.items is not None:
            return a.items == b.items
        if a.chars is not None and b.items is not None:
            # {chars} == items  <=>  every char in items and every item occurs
            conds = []
            for ch in a.chars:
                conds.append(c_or(*[self.str_eq(ch, it) for it in b.items if isinstance(it, str)]))
            for it in b.items:
                conds.append(c_or(*[self.str_eq(ch, it) for ch in a.chars]))
            return c_and(*conds)
        if b.chars is not None and a.items is not None:
            return self.set_eq(b, a)
        raise Unsupported("set equality of two symbolic sets")

    # -------------------------------------------------------------- expression evaluation
    def eval(self, node, env):
        m = getattr(self, "e_" + type(node).__name__, None)
        if m is None:
            raise Unsupported("expression %s" % type(node).__name__)
        return m(node, env)

    def e_Constant(self, node, env):
        v = node.value
        if isinstance(v, float):
            if v != v or v in (float("inf"), float("-inf")):
                raise Unsupported("non-finite float literal")
            return Fraction(repr(v))
        if isinstance(v, (int, str, bool)) or v is None:
            return v
        if isinstance(v, bytes):
            # bytes are lists of character codes in this model (vc/builtins_model.py)
            return self.new_heap(SByteList(list(v)))
        if v is Ellipsis:
            return None
        raise Unsupported("constant %r" % (v,))

    def lookup(self, name, env):
        e = env
        while e is not None:
            if name in e.vars:
                v = e.vars[name]
                if v is UNBOUND:
                    raise PyExc("UnboundLocalError", name)
                if isinstance(v, Poison):
                    raise Unsupported("%s: module-level definition outside the modelled subset (%s)" % (name, v.reason))
                if isinstance(v, SIte) and _has_unbound(v):
                    # bound on some merged paths only: reading it raises exactly on the others
                    if self.decide(_unbound_cond(v)):
                        raise PyExc("UnboundLocalError", name)
                    v = _prune_unbound(v)
                    e.vars[name] = v
                return v
            if e.localnames is not None and name in e.localnames:
                raise PyExc("UnboundLocalError", name)
            e = e.parent
        b = self.loader.builtins.get(name)
        if b is not None or name in self.loader.builtins:
            return b
        import builtins as _pybuiltins
        if hasattr(_pybuiltins, name):
            # a real Python builtin the model does not provide: outside the subset, not a NameError of the program
            raise Unsupported("builtin %s is not modelled" % name)
        raise PyExc("NameError", name)

    def e_Name(self, node, env):
        return self.lookup(node.id, env)

    def e_Tuple(self, node, env):
        return tuple(self.eval(e, env) for e in node.elts)

    def e_List(self, node, env):
        return self.new_heap(SList([self.eval(e, env) for e in node.elts]))

    def e_Set(self, node, env):
        items = [self.force(self.eval(e, env)) for e in node.elts]
        for it in items:
            if isinstance(it, Sym):
                raise Unsupported("symbolic set element")
        return SSet(items=frozenset(items))

    def e_Dict(self, node, env):
        d = {}
        for k, v in zip(node.keys, node.values):
            if k is None:
                src = self.force(self.eval(v, env))
                if not isinstance(src, SDict):
                    raise Unsupported("dict unpacking of %s" % type(src).__name__)
                d.update(src.d)
                continue
            kk = self.force(self.eval(k, env))
            if isinstance(kk, Sym):
                raise Unsupported("symbolic dict key in literal")
            d[kk] = self.eval(v, env)
        return self.new_heap(SDict(d))

    def e_JoinedStr(self, node, env):
        pieces = []
        for v in node.values:
            if isinstance(v, ast.Constant):
                pieces.append(v.value)
            else:
                val = self.eval(v.value, env)
                if getattr(v, "conversion", -1) == 114:          # !r
                    from . import builtins_model as BM
                    val = BM.b_repr(self, [val], {})
                spec = ""
                if v.format_spec is not None:
                    parts = []
                    for fv in v.format_spec.values:
                        if not isinstance(fv, ast.Constant):
                            raise Unsupported("computed format spec in f-string")
                        parts.append(fv.value)
                    spec = "".join(parts)
                if spec:
                    from . import builtins_model as BM
                    pieces.append(BM.format_spec(self, self.force(val), spec))
                else:
                    pieces.append(self.to_str(val))
        return mkstr(pieces)

    def e_Lambda(self, node, env):
        fn = ast.FunctionDef(name="<lambda>", args=node.args, body=[ast.Return(value=node.body)],
                             decorator_list=[], returns=None, type_comment=None)
        ast.copy_location(fn, node)
        ast.fix_missing_locations(fn)
        return self.make_function(fn, env, "<lambda>")

    def e_Attribute(self, node, env):
        obj = self.force(self.eval(node.value, env))
        return self.getattr(obj, node.attr)

    def getattr(self, obj, name):
        if isinstance(obj, ModuleValue):
            if name in obj.globals:
                v = obj.globals[name]
                if isinstance(v, Poison):
                    raise Unsupported("%s.%s: module-level definition outside the modelled subset (%s)" % (obj.name, name, v.reason))
                return v
            sub = self.loader.try_submodule(obj, name)
            if sub is not None:
                return sub
            raise PyExc("AttributeError", "module %s has no attribute %s" % (obj.name, name))
        if isinstance(obj, StubModule):
            if name in obj.members:
                m = obj.members[name]
                from . import builtins_model as BM
                if isinstance(m, BM.LazyPi):
                    return BM.pi_value(self)
                return m
            raise Unsupported("%s.%s not modelled" % (obj.name, name))
        if isinstance(obj, SObject):
            if name in obj.attrs:
                v = obj.attrs[name]
                return v
            m = obj.cls.lookup(name)
            if m is None:
                raise PyExc("AttributeError", name)
            if isinstance(m, StaticMethod):
                return m.fn
            if isinstance(m, ClassMethod):
                return BoundMethod(m.fn, obj.cls)
            if isinstance(m, FuncValue):
                return BoundMethod(m, obj)
            return m
        if isinstance(obj, ClassValue):
            m = obj.lookup(name)
            if m is None:
                raise PyExc("AttributeError", name)
            if isinstance(m, StaticMethod):
                return m.fn
            if isinstance(m, ClassMethod):
                return BoundMethod(m.fn, obj)
            return m
        from . import builtins_model as BM
        meth = BM.get_method(self, obj, name)
        if meth is not None:
            return meth
        raise Unsupported("attribute %s of %r" % (name, type(obj).__name__))

    def e_Subscript(self, node, env):
        obj = self.force(self.eval(node.value, env))
        if isinstance(node.slice, ast.Slice):
            lo = self.eval(node.slice.lower, env) if node.slice.lower is not None else None
            hi = self.eval(node.slice.upper, env) if node.slice.upper is not None else None
            st = self.eval(node.slice.step, env) if node.slice.step is not None else None
            return self.getslice(obj, lo, hi, st)
        idx = self.eval(node.slice, env)
        return self.getitem(obj, idx)

    def seq_len(self, obj):
        if isinstance(obj, (str, SBin, SHex, tuple, list)):
            return len(obj)
        if isinstance(obj, SChr):
            return 1
        if isinstance(obj, SList):
            return len(obj.items)
        if isinstance(obj, SDict):
            return len(obj.d)
        if isinstance(obj, SStr):
            n = obj.known_len()
            if n is None:
                raise Unsupported("len of variable-length string")
            return n
        if isinstance(obj, SSet) and obj.items is not None:
            return len(obj.items)
        if isinstance(obj, (set, frozenset, dict)):
            return len(obj)
        if isinstance(obj, Iterator):
            raise PyExc("TypeError", "len of generator")
        if obj is None or isinstance(obj, (int, Fraction, SInt, SReal, bool, SBool)):
            raise PyExc("TypeError", "object has no len()")
        raise Unsupported("len of %r" % type(obj).__name__)

    def slice_bounds(self, n, lo, hi, st):
        if st is not None:
            st = self.concretize_int(st)
            if st != 1:
                raise Unsupported("slice step")
        lo = None if lo is None else self.concretize_int(self.force(lo), "slice bound")
        hi = None if hi is None else self.concretize_int(self.force(hi), "slice bound")
        return slice(lo, hi).indices(n)[:2]

    def getslice(self, obj, lo, hi, st=None):
        from . import builtins_model as BM
        r = BM.special_getslice(self, obj, lo, hi, st)
        if r is not NotImplemented:
            return r
        n = self.seq_len(obj)
        if st is not None and self.concretize_int(self.force(st), "slice step") != 1:
            # extended slice: pick the elements one by one (concrete bounds)
            stc = self.concretize_int(self.force(st), "slice step")
            if stc == 0:
                raise PyExc("ValueError", "slice step cannot be zero")
            lo_c = None if lo is None else self.concretize_int(self.force(lo), "slice bound")
            hi_c = None if hi is None else self.concretize_int(self.force(hi), "slice bound")
            idxs = list(range(*slice(lo_c, hi_c, stc).indices(n)))
            if isinstance(obj, str):
                return obj[lo_c:hi_c:stc]
            if isinstance(obj, tuple):
                return obj[lo_c:hi_c:stc]
            if isinstance(obj, SBin):
                return sbin_or_str([obj.cells[k] for k in idxs])
            if isinstance(obj, SHex):
                cells = []
                for k in idxs:
                    cells.extend(obj.cells[4 * k: 4 * k + 4])
                return V.shex_or_str(cells, [obj.upper[k] for k in idxs]) if idxs else ""
            if isinstance(obj, SStr):
                chars = obj.chars()
                return mkstr([chars[k] for k in idxs])
            if isinstance(obj, SList):
                return self.new_heap(type(obj)([obj.items[k] for k in idxs]))
            raise Unsupported("extended slice of %r" % type(obj).__name__)
        a, b = self.slice_bounds(n, lo, hi, st)
        if b < a:
            b = a
        if isinstance(obj, str):
            return obj[a:b]
        if isinstance(obj, SBin):
            return sbin_or_str(obj.cells[a:b])
        if isinstance(obj, SHex):
            return V.shex_or_str(obj.cells[4 * a : 4 * b], obj.upper[a:b]) if b > a else ""
        if isinstance(obj, SStr):
            chars = obj.chars()
            return mkstr(chars[a:b])
        if isinstance(obj, tuple):
            return obj[a:b]
        if isinstance(obj, SList):
            return self.new_heap(type(obj)(obj.items[a:b]))
        raise Unsupported("slice of %r" % type(obj).__name__)

    def getitem(self, obj, idx):
        idx = self.force(idx)
        if isinstance(obj, (SDict, dict)):
            return self.dict_get(obj, idx, None, True)
        if isinstance(obj, (str, SBin, SHex, SStr, tuple, SList, list)):
            n = self.seq_len(obj)
            if isinstance(idx, (bool, SBool)):
                idx = self.to_int(idx)
            if isinstance(idx, SInt):
                return self.sym_index(obj, idx, n)
            if not isinstance(idx, int):
                raise PyExc("TypeError", "indices must be integers")
            if idx < -n or idx >= n:
                raise PyExc("IndexError", "index out of range")
            if idx < 0:
                idx += n
            if isinstance(obj, str):
                return obj[idx]
            if isinstance(obj, SBin):
                return sbin_or_str(obj.cells[idx : idx + 1])
            if isinstance(obj, SHex):
                return SHex(obj.cells[4 * idx : 4 * idx + 4], obj.upper[idx : idx + 1])
            if isinstance(obj, SStr):
                return obj.chars()[idx]
            if isinstance(obj, tuple):
                return obj[idx]
            return obj.items[idx] if isinstance(obj, SList) else obj[idx]
        if obj is None:
            raise PyExc("TypeError", "'NoneType' object is not subscriptable")
        if isinstance(obj, (int, Fraction, SInt, SReal, bool, SBool)):
            raise PyExc("TypeError", "number is not subscriptable")
        from . import builtins_model as BM
        r = BM.special_getitem(self, obj, idx)
        if r is not NotImplemented:
            return r
        raise Unsupported("subscript of %r" % type(obj).__name__)

    def sym_index(self, obj, idx, n):
        """obj[idx] with symbolic integer index: If-chain over the feasible range"""
        lo, hi = idx.lo, idx.hi
        # out-of-range outcomes
        if lo is None or lo < -n:
            if self.decide(idx.term < -n):
                raise PyExc("IndexError", "index out of range")
            lo = -n
        if hi is None or hi >= n:
            if self.decide(idx.term >= n):
                raise PyExc("IndexError", "index out of range")
            hi = n - 1
        if lo < 0:
            # negative indices: fork once
            if self.decide(idx.term < 0):
                idx = SInt(idx.term + n, None, lo + n, n - 1)
                lo, hi = idx.lo, idx.hi
            else:
                lo = 0
        items = [self.getitem(obj, k) for k in range(lo, hi + 1)]
        if all(isinstance(x, str) and len(x) == 1 for x in items) and len(items) > 1:
            codes = [ord(x) for x in items]
            key = (tuple(codes), lo, idx.term.get_id())
            hit = _LUT_CACHE.get(key)
            if hit is None:
                e = z3.IntVal(codes[-1])
                for k in range(len(codes) - 2, -1, -1):
                    e = z3.If(idx.term == lo + k, z3.IntVal(codes[k]), e)
                hit = (e, idx.term)       # keep the index term alive: its ast id is the key
                _LUT_CACHE[key] = hit
            return SChr(hit[0], (idx.term, lo, codes))
        res = items[-1]
        for k in range(hi - 1, lo - 1, -1):
            res = self.vmerge_index(idx.term == k, items[k - lo], res)
        return res

    def vmerge_index(self, c, a, b):
        # characters: merge on code points
        if self.is_strlike(a) and self.is_strlike(b) and not isinstance(a, SStr) and not isinstance(b, SStr) \
           and self.seq_len(a) == 1 and self.seq_len(b) == 1:
            ca = self.char_code(a)
            cb = self.char_code(b)
            if ca is not None and cb is not None:
                if isinstance(ca, int) and isinstance(cb, int) and ca == cb:
                    return a
                za = z3.IntVal(ca) if isinstance(ca, int) else ca
                zb = z3.IntVal(cb) if isinstance(cb, int) else cb
                return SChr(z3.If(c, za, zb))
        return self.vmerge(c, a, b)

    def _tuple_has_sym(self, k):
        return isinstance(k, tuple) and any(isinstance(x, Sym) or self._tuple_has_sym(x) for x in k)

    def dict_key_guard(self, d, key):
        """Tuple keys with symbolic components are hashed and compared *structurally* (identity of terms) by the Python
        dict that backs SDict.  That is only right when no other key of the same shape can be equal to it without being
        identical: otherwise the operation is outside the model (undecided), never a silent miss.  Found by seed C04-5
        (a module-level cache keyed by (parity, zone index, YZ)): a second call's look-up missed the first call's entry
        although the two symbolic keys could be equal, and the engine 'proved' an obligation that fails natively."""
        if not isinstance(key, tuple):
            return
        ks = self._tuple_has_sym(key)
        for k in d:
            if not (isinstance(k, tuple) and len(k) == len(key)):
                continue
            if not (ks or self._tuple_has_sym(k)):
                continue
            if k is key:
                continue
            same, distinct = True, False
            for x, y in zip(k, key):
                if x is y:
                    continue
                xs = isinstance(x, (Sym, tuple)) or isinstance(y, (Sym, tuple))
                if not xs and type(x) == type(y) and x == y:
                    continue
                same = False
                if not xs and x != y:
                    distinct = True
                    break
            if same or distinct:
                continue
            raise Unsupported("dictionary key with symbolic components may be equal to another key of the dictionary")

    def dict_get(self, obj, key, default, raise_on_missing):
        d = obj.d if isinstance(obj, SDict) else obj
        key = self.force(key)
        if isinstance(key, tuple):
            key = tuple(self.force(x) for x in key)
        self.dict_key_guard(d, key)
        if isinstance(key, (SBool,)):
            key = self.to_int(key)
        if isinstance(key, SInt):
            cands = []
            for k in d:
                if not isinstance(k, int):
                    continue
                kk = int(k)
                if key.lo is not None and kk < key.lo or key.hi is not None and kk > key.hi:
                    continue
                cands.append((kk, d[k]))
            # one decision "is the key present at all", then a merged look-up (no fork per key)
            missing = c_and(*[key.term != kk for kk, _ in cands]) if cands else True
            if self.decide(missing):
                if raise_on_missing:
                    raise PyExc("KeyError", "symbolic key")
                return default
            vals = [v for _, v in cands]
            if len(vals) > 1 and all(isinstance(v, SDict) for v in vals) and \
               all(set(v.d) == set(vals[0].d) for v in vals):
                # rows of a literal table (same columns): one merged row instead of a fork per key
                row = {}
                for col in vals[0].d:
                    r_ = cands[-1][1].d[col]
                    for kk, v in reversed(cands[:-1]):
                        r_ = self.vmerge(key.term == kk, v.d[col], r_)
                    row[col] = r_
                return self.new_heap(SDict(row))
            res = cands[-1][1]
            for kk, v in reversed(cands[:-1]):
                res = self.vmerge(key.term == kk, v, res)
            return res
        if isinstance(key, Sym):
            if isinstance(key, (SBin, SHex, SStr, SChr)):
                for k in d:
                    if isinstance(k, str):
                        if self.decide(self.truth_cond(self.str_eq(key, k))):
                            return d[k]
                if raise_on_missing:
                    raise PyExc("KeyError", "symbolic key")
                return default
            raise Unsupported("symbolic dict key %r" % (key,))
        try:
            if key in d:
                return d[key]
        except TypeError:
            raise PyExc("TypeError", "unhashable key")
        if raise_on_missing:
            raise PyExc("KeyError", repr(key))
        return default

    @staticmethod
    def truth_cond(c):
        return c

    # ----- operators
    def e_UnaryOp(self, node, env):
        v = self.force(self.eval(node.operand, env))
        if isinstance(node.op, ast.Not):
            return mk_bool(c_not(self.truth(v)))
        if isinstance(node.op, ast.USub):
            return self.arith("-", 0, v)
        if isinstance(node.op, ast.UAdd):
            return v
        if isinstance(node.op, ast.Invert):
            return self.arith("-", self.arith("-", 0, v), 1)
        raise Unsupported("unary op")

    def e_BoolOp(self, node, env):
        is_and = isinstance(node.op, ast.And)
        vals = node.values
        return self.boolop(is_and, vals, 0, env)

    def boolop(self, is_and, vals, i, env):
        v = self.eval(vals[i], env)
        if i == len(vals) - 1:
            return v
        c = self.truth(v)
        if isinstance(c, bool):
            if c == is_and:
                return self.boolop(is_and, vals, i + 1, env)
            return v
        # symbolic: speculative evaluation of the rest, merged; fall back to forking
        snap = self.snapshot()
        self.merge_begin()
        try:
            rest = self.boolop(is_and, vals, i + 1, env)
            after = self.snapshot()
            ok = True
        except (MergeAbort, PyExc, PathInfeasible):
            ok = False
        finally:
            self.merge_end()
        if ok:
            # side effects in `rest` only happen when it is evaluated
            cond_rest = c if is_and else z3.Not(c)
            try:
                self.merge_states(cond_rest, after, snap, snap)
                self.stats["merges"] += 1
                return self.vmerge(cond_rest, rest, v)
            except MergeAbort:
                pass
        self.restore(snap)
        self.stats["merge_aborts"] += 1
        d = self.decide(c)
        if d == is_and:
            return self.boolop(is_and, vals, i + 1, env)
        return v

    def e_IfExp(self, node, env):
        c = self.truth(self.eval(node.test, env))
        if isinstance(c, bool):
            return self.eval(node.body if c else node.orelse, env)
        snap = self.snapshot()
        self.merge_begin()
        try:
            a = self.eval(node.body, env)
            sa = self.snapshot()
            self.restore(snap)
            b = self.eval(node.orelse, env)
            sb = self.snapshot()
            ok = True
        except (MergeAbort, PyExc, PathInfeasible):
            ok = False
        finally:
            self.merge_end()
        if ok:
            try:
                self.merge_states(c, sa, sb, snap)
                self.stats["merges"] += 1
                return self.vmerge(c, a, b)
            except MergeAbort:
                pass
        self.restore(snap)
        self.stats["merge_aborts"] += 1
        if self.decide(c):
            return self.eval(node.body, env)
        return self.eval(node.orelse, env)

    def e_BinOp(self, node, env):
        a = self.eval(node.left, env)
        b = self.eval(node.right, env)
        return self.binop(node.op, a, b)

    OPS = {ast.Add: "+", ast.Sub: "-", ast.Mult: "*", ast.Div: "/", ast.FloorDiv: "//", ast.Mod: "%",
           ast.Pow: "**", ast.LShift: "<<", ast.RShift: ">>", ast.BitAnd: "&", ast.BitOr: "|",
           ast.BitXor: "^"}

    def binop(self, op, a, b):
        sym = self.OPS.get(type(op))
        if sym is None:
            raise Unsupported("operator %s" % type(op).__name__)
        a = self.force(a)
        if not (sym == "%" and self.is_strlike(a)):
            b = self.force(b)        # (a value handed to %-formatting is not inspected: no fork)
        from . import builtins_model as BM
        return BM.binop(self, sym, a, b)

    def arith(self, sym, a, b):
        from . import builtins_model as BM
        return BM.binop(self, sym, a, b)

    def e_Compare(self, node, env):
        left = self.eval(node.left, env)
        result = True
        conds = []
        for i, (op, rnode) in enumerate(zip(node.ops, node.comparators)):
            if conds and i > 0:
                # short circuit: later comparators are evaluated only if earlier hold;
                # they are side-effect free expressions here, evaluate eagerly but guarded
                pass
            right = self.eval(rnode, env)
            c = self.compare(op, left, right)
            conds.append(c)
            if c is False:
                return False
            left = right
        return mk_bool(c_and(*conds))

    def compare(self, op, a, b):
        if isinstance(op, ast.Is) or isinstance(op, ast.IsNot):
            r = self.is_op(a, b)
            return r if isinstance(op, ast.Is) else c_not(r)
        if isinstance(op, ast.Eq):
            return self.veq(a, b)
        if isinstance(op, ast.NotEq):
            return c_not(self.veq(a, b))
        if isinstance(op, (ast.In, ast.NotIn)):
            r = self.contains(self.force(b), a)
            return r if isinstance(op, ast.In) else c_not(r)
        a = self.force(a)
        b = self.force(b)
        if isinstance(a, (str,)) and isinstance(b, str):
            return {ast.Lt: a < b, ast.LtE: a <= b, ast.Gt: a > b, ast.GtE: a >= b}[type(op)]
        if isinstance(a, Opaque) or isinstance(b, Opaque):
            raise Unsupported("ordering of opaque value")
        if not (is_num(a) and is_num(b)):
            if a is None or b is None or self.is_strlike(a) or self.is_strlike(b) or \
               isinstance(a, (tuple, SList, SDict)) or isinstance(b, (tuple, SList, SDict)):
                if isinstance(a, tuple) and isinstance(b, tuple):
                    if all(isinstance(x, int) for x in a + b):
                        return {ast.Lt: a < b, ast.LtE: a <= b, ast.Gt: a > b, ast.GtE: a >= b}[type(op)]
                    raise Unsupported("tuple ordering")
                raise PyExc("TypeError", "ordering not supported between these types")
            raise Unsupported("comparison of %r and %r" % (type(a), type(b)))
        if is_concrete_num(a) and is_concrete_num(b):
            return {ast.Lt: a < b, ast.LtE: a <= b, ast.Gt: a > b, ast.GtE: a >= b}[type(op)]
        # zero / non-zero tests of a bit-view integer stay in the bit domain
        if isinstance(b, int) and not isinstance(b, bool) and isinstance(a, SInt) and a.cells is not None \
           and all(not isinstance(x, IRef) for x in a.cells):
            nz = None
            if (isinstance(op, ast.Gt) and b == 0) or (isinstance(op, ast.GtE) and b == 1):
                nz = True
            elif (isinstance(op, ast.Lt) and b == 1) or (isinstance(op, ast.LtE) and b == 0):
                nz = False
            if nz is not None:
                conds = []
                for x in a.cells:
                    xb = B.norm(x)
                    if isinstance(xb, int):
                        if xb:
                            conds = [True]
                            break
                        continue
                    conds.append(B.to_z3(xb))
                r = c_or(*conds)
                return r if nz else c_not(r)
        # quick decisions from known bounds
        la, ha = bounds(a)
        lb, hb = bounds(b)
        if isinstance(a, (int, SInt, bool)) and isinstance(b, (int, SInt, bool)) and None not in (la, ha, lb, hb):
            if isinstance(op, ast.Lt):
                if ha < lb:
                    return True
                if la >= hb:
                    return False
            if isinstance(op, ast.LtE):
                if ha <= lb:
                    return True
                if la > hb:
                    return False
            if isinstance(op, ast.Gt):
                if la > hb:
                    return True
                if ha <= lb:
                    return False
            if isinstance(op, ast.GtE):
                if la >= hb:
                    return True
                if ha < lb:
                    return False
        ta, ia = to_z3_num(a)
        tb, ib = to_z3_num(b)
        if ia != ib:
            ta, tb = to_real(a), to_real(b)
        if isinstance(op, ast.Lt):
            return ta < tb
        if isinstance(op, ast.LtE):
            return ta <= tb
        if isinstance(op, ast.Gt):
            return ta > tb
        if isinstance(op, ast.GtE):
            return ta >= tb
        raise Unsupported("comparison operator")

    def is_op(self, a, b):
        if isinstance(a, SIte):
            return c_or(c_and(a.c, self.is_op(a.a, b)), c_and(c_not(a.c), self.is_op(a.b, b)))
        if isinstance(b, SIte):
            return self.is_op(b, a)
        if a is UNBOUND or b is UNBOUND:
            raise PyExc("UnboundLocalError", "unbound")
        if b is None or a is None:
            other = a if b is None else b
            if isinstance(other, Opaque):
                self.trusted.add("isnone(%s) uninterpreted" % other.name)
                return self.uf_bool("isnone_" + other.name, other.args)
            return a is None and b is None
        if isinstance(a, bool) and isinstance(b, bool):
            return a == b
        if isinstance(a, (bool, SBool)) and isinstance(b, (bool, SBool)):
            return self.veq(a, b)
        if isinstance(a, (SBool,)) or isinstance(b, (SBool,)):
            return False
        if isinstance(a, (int, str)) and isinstance(b, (int, str)):
            return a == b and type(a) == type(b)
        return a is b

    def contains(self, container, item):
        if isinstance(container, (tuple, list)):
            return c_or(*[self.veq(item, x) for x in container])
        if isinstance(container, SList):
            return c_or(*[self.veq(item, x) for x in container.items])
        if isinstance(container, SSet):
            if container.items is not None:
                return c_or(*[self.veq(item, x) for x in container.items])
            return c_or(*[self.veq(item, x) for x in container.chars])
        if isinstance(container, (set, frozenset)):
            return c_or(*[self.veq(item, x) for x in container])
        if isinstance(container, (SDict, dict)):
            d = container.d if isinstance(container, SDict) else container
            item = self.force(item)
            if isinstance(item, tuple):
                item = tuple(self.force(x) for x in item)
            self.dict_key_guard(d, item)
            if not isinstance(item, Sym):
                try:
                    return item in d
                except TypeError:
                    raise PyExc("TypeError", "unhashable")
            return c_or(*[self.veq(item, k) for k in d])
        if self.is_strlike(container):
            item = self.force(item)
            if not self.is_strlike(item):
                raise PyExc("TypeError", "'in <string>' requires string as left operand")
            if isinstance(container, str) and isinstance(item, str):
                return item in container
            chars = self.str_chars(container)
            n_item = self.seq_len(item)
            if chars is None:
                raise Unsupported("substring test on variable-length string")
            if n_item == 0:
                return True
            conds = []
            for i in range(0, len(chars) - n_item + 1):
                conds.append(self.str_eq(mkstr(chars[i : i + n_item]), item))
            return c_or(*conds)
        if isinstance(container, Iterator):
            return c_or(*[self.veq(item, x) for x in container.items[container.pos:]])
        if isinstance(container, range):
            item = self.force(item)
            if isinstance(item, (bool, SBool)):
                item = self.to_int(item)
            if isinstance(item, int):
                return item in container
            if isinstance(item, SInt):
                a, b, st = container.start, container.stop, container.step
                if len(container) == 0:
                    return False
                if st > 0:
                    c = z3.And(item.term >= a, item.term < b)
                else:
                    c = z3.And(item.term <= a, item.term > b)
                if abs(st) != 1:
                    c = z3.And(c, (item.term - a) % abs(st) == 0)
                return c
            if isinstance(item, (Fraction, SReal)):
                return c_or(*[self.veq(item, x) for x in container]) if len(container) <= 64 else self._unsupported("real in long range")
            return False
        if container is None or is_num(container):
            raise PyExc("TypeError", "argument is not iterable")
        from . import builtins_model as BM
        r = BM.special_contains(self, container, item)
        if r is not NotImplemented:
            return r
        raise Unsupported("'in' on %r" % type(container).__name__)

    def _unsupported(self, what):
        raise Unsupported(what)

    # ----- comprehension
    def comp_run(self, generators, env, idx, emit):
        if idx == len(generators):
            emit(env)
            return
        g = generators[idx]
        it = self.iterate(self.force(self.eval(g.iter, env)))
        for x in it:
            self.assign_target(g.target, x, env)
            ok = True
            for cnd in g.ifs:
                c = self.truth(self.eval(cnd, env))
                if not self.decide(c):
                    ok = False
                    break
            if ok:
                self.comp_run(generators, env, idx + 1, emit)

    def e_ListComp(self, node, env):
        sub = Env(env)
        out = []
        self.comp_run(node.generators, sub, 0, lambda e: out.append(self.eval(node.elt, e)))
        return self.new_heap(SList(out))

    def e_GeneratorExp(self, node, env):
        sub = Env(env)
        out = []
        self.comp_run(node.generators, sub, 0, lambda e: out.append(self.eval(node.elt, e)))
        return self.new_heap(Iterator(out))

    def e_SetComp(self, node, env):
        raise Unsupported("set comprehension")

    def e_DictComp(self, node, env):
        sub = Env(env)
        out = {}

        def emit(e):
            k = self.force(self.eval(node.key, e))
            if isinstance(k, Sym):
                raise Unsupported("symbolic key in dict comprehension")
            out[k] = self.eval(node.value, e)
        self.comp_run(node.generators, sub, 0, emit)
        return self.new_heap(SDict(out))

    def iterate(self, obj):
        """python list of the elements of a concrete-length iterable"""
        if isinstance(obj, (tuple, list)):
            return list(obj)
        if isinstance(obj, SList):
            return list(obj.items)
        if isinstance(obj, range):
            if len(obj) > self.MAX_LOOP:
                raise Unsupported("range too long")
            return list(obj)
        if isinstance(obj, str):
            return list(obj)
        if isinstance(obj, (SBin, SHex, SStr)):
            ch = self.str_chars(obj)
            if ch is None:
                raise Unsupported("iteration over variable-length string")
            return ch
        if isinstance(obj, (SDict, dict)):
            return list((obj.d if isinstance(obj, SDict) else obj).keys())
        if isinstance(obj, Iterator):
            items = obj.items[obj.pos:]
            obj.pos = len(obj.items)
            return items
        if isinstance(obj, SSet) and obj.items is not None:
            return sorted(obj.items, key=repr)
        if isinstance(obj, (set, frozenset)):
            return sorted(obj, key=repr)
        if obj is None or is_num(obj):
            raise PyExc("TypeError", "object is not iterable")
        from . import builtins_model as BM
        r = BM.special_iterate(self, obj)
        if r is not NotImplemented:
            return r
        raise Unsupported("iteration over %r" % type(obj).__name__)

    # ----- calls
    def e_Call(self, node, env):
        fn = self.force(self.eval(node.func, env))
        args = []
        for a in node.args:
            if isinstance(a, ast.Starred):
                args.extend(self.iterate(self.force(self.eval(a.value, env))))
            else:
                args.append(self.eval(a, env))
        kwargs = {}
        for k in node.keywords:
            if k.arg is None:
                d = self.force(self.eval(k.value, env))
                if isinstance(d, SDict):
                    kwargs.update(d.d)
                else:
                    raise Unsupported("**kwargs of non-dict")
            else:
                kwargs[k.arg] = self.eval(k.value, env)
        return self.call(fn, args, kwargs)

    def call(self, fn, args, kwargs=None):
        kwargs = kwargs or {}
        if isinstance(fn, Builtin):
            return fn.fn(self, args, kwargs)
        if isinstance(fn, BoundMethod):
            return self.call(fn.func, [fn.self_obj] + list(args), kwargs)
        if isinstance(fn, FuncValue):
            return self.call_function(fn, args, kwargs)
        if isinstance(fn, ClassValue):
            return self.instantiate(fn, args, kwargs)
        if isinstance(fn, ExcClass):
            return ExcValue(fn.name, args)
        if fn is None:
            raise PyExc("TypeError", "'NoneType' object is not callable")
        raise Unsupported("call of %r" % (fn,))

    def instantiate(self, cls, args, kwargs):
        obj = self.new_heap(SObject(cls))
        init = cls.lookup("__init__")
        if init is not None and isinstance(init, FuncValue):
            self.call_function(init, [obj] + list(args), kwargs)
        return obj

    def call_function(self, fn, args, kwargs):
        contract = self.contracts.get(fn.qualname)
        if contract is not None and fn.qualname not in self.no_contract_for:
            return contract(self, fn, args, kwargs)
        return self.call_body(fn, args, kwargs)

    def call_body(self, fn, args, kwargs):
        node = fn.node
        if fn.locals_names is None:
            fn.locals_names = compute_locals(node)
        env = Env(fn.env, fn.locals_names)
        self.bind_args(fn, env, args, kwargs)
        self.frames.append(env)
        self.func_stack.append(fn.qualname)
        self.call_depth += 1
        saved_loop = self.loop_depth
        self.loop_depth = 0
        if self.call_depth > 60:
            raise Unsupported("call depth")
        try:
            try:
                self.exec_block(node.body, env)
            except ReturnSignal as r:
                return r.value
            return None
        finally:
            self.call_depth -= 1
            self.loop_depth = saved_loop
            self.func_stack.pop()
            self.frames.pop()

    def bind_args(self, fn, env, args, kwargs):
        a = fn.node.args
        params = [p.arg for p in a.posonlyargs + a.args]
        nargs = len(args)
        if nargs > len(params) and a.vararg is None:
            raise PyExc("TypeError", "%s() takes %d positional arguments but %d were given"
                        % (fn.qualname, len(params), nargs))
        for name, v in zip(params, args):
            env.vars[name] = v
        if a.vararg is not None:
            env.vars[a.vararg.arg] = tuple(args[len(params):])
        ndef = len(fn.defaults)
        kwargs = dict(kwargs)
        for i, name in enumerate(params):
            if i < nargs:
                if name in kwargs:
                    raise PyExc("TypeError", "multiple values for argument " + name)
                continue
            if name in kwargs:
                env.vars[name] = kwargs.pop(name)
            else:
                di = i - (len(params) - ndef)
                if di < 0:
                    raise PyExc("TypeError", "missing required argument " + name)
                env.vars[name] = fn.defaults[di]
        for p, d in zip(a.kwonlyargs, fn.kwdefaults):
            if p.arg in kwargs:
                env.vars[p.arg] = kwargs.pop(p.arg)
            elif d is not UNBOUND:
                env.vars[p.arg] = d
            else:
                raise PyExc("TypeError", "missing keyword-only argument " + p.arg)
        if a.kwarg is not None:
            env.vars[a.kwarg.arg] = self.new_heap(SDict(kwargs))
        elif kwargs:
            raise PyExc("TypeError", "unexpected keyword argument %s" % list(kwargs)[0])

    def make_function(self, node, env, qualname):
        defaults = [self.eval(d, env) for d in node.args.defaults]
        kwdefaults = [self.eval(d, env) if d is not None else UNBOUND for d in node.args.kw_defaults]
        module = None
        e = env
        while e is not None:
            if "__module_value__" in e.vars:
                module = e.vars["__module_value__"]
            e = e.parent
        return FuncValue(node, module, env, qualname, defaults, kwdefaults)

    # -------------------------------------------------------------- conversions
    def to_int(self, v):
        from . import builtins_model as BM
        return BM.b_int(self, [v], {})

    def to_str(self, v):
        from . import builtins_model as BM
        return BM.b_str(self, [v], {})

    # -------------------------------------------------------------- statements
    def exec_block(self, stmts, env):
        for s in stmts:
            self.exec_stmt(s, env)

    def exec_stmt(self, node, env):
        self.cur_line = getattr(node, "lineno", 0)
        m = getattr(self, "s_" + type(node).__name__, None)
        if m is None:
            raise Unsupported("statement %s" % type(node).__name__)
        return m(node, env)

    def s_Expr(self, node, env):
        if isinstance(node.value, ast.Constant):
            return
        self.eval(node.value, env)

    def s_Pass(self, node, env):
        return

    def s_Global(self, node, env):
        raise Unsupported("global statement")

    def s_Assign(self, node, env):
        v = self.eval(node.value, env)
        for t in node.targets:
            self.assign_target(t, v, env)

    def s_AnnAssign(self, node, env):
        if node.value is None:
            return
        v = self.eval(node.value, env)
        self.assign_target(node.target, v, env)

    def s_AugAssign(self, node, env):
        t = node.target
        if isinstance(t, ast.Name):
            cur = self.lookup(t.id, env)
        elif isinstance(t, ast.Subscript):
            obj = self.force(self.eval(t.value, env))
            idx = self.eval(t.slice, env)
            cur = self.getitem(obj, idx)
        elif isinstance(t, ast.Attribute):
            obj = self.force(self.eval(t.value, env))
            cur = self.getattr(obj, t.attr)
        else:
            raise Unsupported("augassign target")
        v = self.eval(node.value, env)
        if isinstance(cur, SList) and isinstance(node.op, ast.Add):
            cur.items.extend(self.iterate(self.force(v)))
            return
        new = self.binop(node.op, cur, v)
        if isinstance(t, ast.Name):
            self.set_name(t.id, new, env)
        elif isinstance(t, ast.Subscript):
            self.setitem(obj, idx, new)
        else:
            self.setattr(obj, t.attr, new)

    def set_name(self, name, v, env):
        env.vars[name] = v

    def assign_target(self, t, v, env):
        if isinstance(t, ast.Name):
            self.set_name(t.id, v, env)
        elif isinstance(t, (ast.Tuple, ast.List)):
            v = self.force(v)
            if v is None or is_num(v):
                raise PyExc("TypeError", "cannot unpack non-iterable object")
            if isinstance(v, Opaque):
                # opaque tuple results: project
                items = [Opaque(v.name + "[%d]" % i, v.args) for i in range(len(t.elts))]
            else:
                items = self.iterate(v)
            if len(items) != len(t.elts):
                raise PyExc("ValueError", "unpack: expected %d values, got %d" % (len(t.elts), len(items)))
            for tt, x in zip(t.elts, items):
                self.assign_target(tt, x, env)
        elif isinstance(t, ast.Subscript):
            obj = self.force(self.eval(t.value, env))
            if isinstance(t.slice, ast.Slice):
                # list[a:b] = iterable (contiguous slices of lists with concrete bounds)
                if not isinstance(obj, SList) or t.slice.step is not None:
                    raise Unsupported("slice assignment on %s" % type(obj).__name__)
                lo = self.eval(t.slice.lower, env) if t.slice.lower is not None else None
                hi = self.eval(t.slice.upper, env) if t.slice.upper is not None else None
                a, b = self.slice_bounds(len(obj.items), lo, hi, None)
                if b < a:
                    b = a
                new_items = self.iterate(self.force(v))
                obj.items[a:b] = list(new_items)
                return
            idx = self.eval(t.slice, env)
            self.setitem(obj, idx, v)
        elif isinstance(t, ast.Attribute):
            obj = self.force(self.eval(t.value, env))
            self.setattr(obj, t.attr, v)
        else:
            raise Unsupported("assignment target %s" % type(t).__name__)

    def setattr(self, obj, name, v):
        if isinstance(obj, SObject):
            obj.attrs[name] = v
            return
        raise Unsupported("setattr on %r" % type(obj).__name__)

    def setitem(self, obj, idx, v):
        idx = self.force(idx)
        if isinstance(obj, SList):
            if isinstance(idx, SInt):
                idx = self.concretize_int(idx, "list index")
            if not isinstance(idx, int):
                raise PyExc("TypeError", "list indices must be integers")
            n = len(obj.items)
            if idx < -n or idx >= n:
                raise PyExc("IndexError", "list assignment index out of range")
            obj.items[idx] = v
            return
        if isinstance(obj, SDict):
            if isinstance(idx, SInt):
                idx = self.concretize_int(idx, "dict key")
            if isinstance(idx, SBool):
                idx = self.concretize_int(self.to_int(idx), "dict key")
            if isinstance(idx, Sym):
                idx = self.concretize_key(obj, idx)
            if isinstance(idx, tuple):
                idx = tuple(self.force(x) for x in idx)
            self.dict_key_guard(obj.d, idx)
            obj.d[idx] = v
            return
        if obj is None or is_num(obj) or self.is_strlike(obj) or isinstance(obj, tuple):
            raise PyExc("TypeError", "object does not support item assignment")
        from . import builtins_model as BM
        if BM.special_setitem(self, obj, idx, v) is not NotImplemented:
            return
        raise Unsupported("setitem on %r" % type(obj).__name__)

    def concretize_key(self, obj, key):
        """dict keys must be concrete: fork over the symbolic characters of a short string key"""
        chars = self.str_chars(key) if self.is_strlike(key) else None
        if chars is None or len(chars) > 8:
            raise Unsupported("symbolic key in dict store: %r" % (key,))
        out = []
        for ch in chars:
            if isinstance(ch, str):
                out.append(ch)
            elif isinstance(ch, SBin):
                b = V.cell_bit(ch.cells[0])
                out.append("01"[b] if isinstance(b, int) else ("1" if self.decide(B.to_z3(b)) else "0"))
            elif isinstance(ch, SChr) and not isinstance(ch.code, int):
                code = SInt(ch.code, None, 0, 0x10FFFF)
                out.append(chr(self.concretize_int(code, "key character")))
            else:
                raise Unsupported("symbolic key in dict store: %r" % (key,))
        return "".join(out)

    def s_Delete(self, node, env):
        for t in node.targets:
            if isinstance(t, ast.Subscript):
                obj = self.force(self.eval(t.value, env))
                idx = self.force(self.eval(t.slice, env))
                if isinstance(obj, SDict):
                    if isinstance(idx, Sym):
                        idx = self.concretize_key(obj, idx)
                    self.dict_key_guard(obj.d, idx)
                    if idx not in obj.d:
                        raise PyExc("KeyError", repr(idx))
                    del obj.d[idx]
                    continue
            elif isinstance(t, ast.Name):
                if t.id in env.vars:
                    env.vars[t.id] = UNBOUND
                    continue
            raise Unsupported("del target")

    def s_Return(self, node, env):
        v = self.eval(node.value, env) if node.value is not None else None
        if self.jump_crosses_merge(True):
            raise MergeAbort()
        raise ReturnSignal(v)

    def s_Break(self, node, env):
        if self.jump_crosses_merge(False):
            raise MergeAbort()
        raise BreakSignal()

    def s_Continue(self, node, env):
        if self.jump_crosses_merge(False):
            raise MergeAbort()
        raise ContinueSignal()

    def s_Raise(self, node, env):
        if self.merge_depth:
            raise MergeAbort()
        if node.exc is None:
            raise Unsupported("bare raise")
        v = self.force(self.eval(node.exc, env))
        if isinstance(v, ExcClass):
            raise PyExc(v.name, None)
        if isinstance(v, ExcValue):
            raise PyExc(v.cls, v.args)
        raise Unsupported("raise of %r" % (v,))

    def s_Assert(self, node, env):
        c = self.eval(node.test, env)
        label = None
        if node.msg is not None:
            m = self.eval(node.msg, env)
            if isinstance(m, str):
                label = m
        if label is None:
            label = "assert@line%d" % node.lineno
        if self.current_label:
            label = self.current_label + "/" + label
        self.check(c, label)

    def s_If(self, node, env):
        c = self.truth(self.eval(node.test, env))
        if isinstance(c, bool):
            self.exec_block(node.body if c else node.orelse, env)
            return
        cs = z3.simplify(c)
        if z3.is_true(cs) or z3.is_false(cs):
            self.exec_block(node.body if z3.is_true(cs) else node.orelse, env)
            return
        # merge first, ask the solver later.  An arm that contains a jump (return / break / raise ...) can
        # only be merged away when it is infeasible under the path condition and the conditions of the
        # enclosing speculative arms - that is checked with one solver query per such arm.
        jump_body = _block_has_jump(node.body)
        jump_else = _block_has_jump(node.orelse)
        notc = z3.Not(c)
        skip_body = jump_body and not self.feasible_spec(c)
        skip_else = jump_else and not self.feasible_spec(notc)
        if skip_body and skip_else:
            raise PathInfeasible()
        if skip_body or skip_else:
            # exactly one arm can execute: no merge, no fork; remember the fact for later queries
            if self.merge_depth:
                self.spec_conds.append(notc if skip_body else c)
                try:
                    self.exec_block(node.orelse if skip_body else node.body, env)
                finally:
                    self.spec_conds.pop()
            else:
                self.ps.add(notc if skip_body else c)
                self.exec_block(node.orelse if skip_body else node.body, env)
            return
        snap = self.snapshot()
        self.merge_begin()
        try:
            self.spec_conds.append(c)
            try:
                self.exec_block(node.body, env)
            finally:
                self.spec_conds.pop()
            sa = self.snapshot()
            self.restore(snap)
            self.spec_conds.append(notc)
            try:
                self.exec_block(node.orelse, env)
            finally:
                self.spec_conds.pop()
            sb = self.snapshot()
            ok = True
        except (MergeAbort, PyExc, PathInfeasible):
            ok = False
        finally:
            self.merge_end()
        if ok:
            try:
                self.merge_states(c, sa, sb, snap)
                self.stats["merges"] += 1
                return
            except MergeAbort:
                pass
        self.restore(snap)
        self.stats["merge_aborts"] += 1
        if self.decide(c):
            self.exec_block(node.body, env)
        else:
            self.exec_block(node.orelse, env)

    def feasible_spec(self, cond):
        if self.spec_conds:
            cond = z3.And(*(self.spec_conds + [cond]))
        return self.ps.feasible(cond)

    _LOOP_BODY = {}

    def loop_body(self, node):
        """loop body with `if c: ...; continue` at its top level rewritten to `if c: ... else: <rest of the body>`
        (same meaning; the arm then ends without a jump, so the two arms can be merged instead of forked)"""
        key = id(node)
        hit = Engine._LOOP_BODY.get(key)
        if hit is not None and hit[0] is node:
            return hit[1]

        def rewrite(stmts):
            for i, st in enumerate(stmts):
                if isinstance(st, ast.If) and st.body and isinstance(st.body[-1], ast.Continue) and i + 1 < len(stmts):
                    rest = rewrite(stmts[i + 1:])
                    new = ast.If(test=st.test, body=(st.body[:-1] or [ast.Pass()]), orelse=list(st.orelse) + rest)
                    ast.copy_location(new, st)
                    for n in new.body:
                        if not hasattr(n, "lineno"):
                            ast.copy_location(n, st)
                    return list(stmts[:i]) + [new]
            return list(stmts)
        body = rewrite(node.body)
        Engine._LOOP_BODY[key] = (node, body)
        return body

    def s_For(self, node, env):
        items = self.iterate(self.force(self.eval(node.iter, env)))
        broke = False
        self.loop_depth += 1
        try:
            for x in items:
                self.assign_target(node.target, x, env)
                try:
                    self.exec_block(self.loop_body(node), env)
                except BreakSignal:
                    broke = True
                    break
                except ContinueSignal:
                    continue
        finally:
            self.loop_depth -= 1
        if not broke and node.orelse:
            self.exec_block(node.orelse, env)

    def s_While(self, node, env):
        n = 0
        broke = False
        self.loop_depth += 1
        try:
            while True:
                c = self.truth(self.eval(node.test, env))
                if not self.decide(c):
                    break
                n += 1
                if n > self.MAX_LOOP:
                    raise Unsupported("while loop bound")
                try:
                    self.exec_block(self.loop_body(node), env)
                except BreakSignal:
                    broke = True
                    break
                except ContinueSignal:
                    continue
        finally:
            self.loop_depth -= 1
        if not broke and node.orelse:
            self.exec_block(node.orelse, env)

    def s_Try(self, node, env):
        if self.merge_depth:
            # a try block inside a speculative arm: exceptions abort the merge anyway
            pass
        try:
            try:
                self.exec_block(node.body, env)
            except PyExc as e:
                if self.merge_depth:
                    raise MergeAbort()
                handled = False
                for h in node.handlers:
                    if h.type is None:
                        match = True
                    else:
                        t = self.force(self.eval(h.type, env))
                        ts = t if isinstance(t, tuple) else (t,)
                        match = False
                        for tt in ts:
                            if isinstance(tt, ExcClass) and exc_isinstance(e.cls, tt.name):
                                match = True
                    if match:
                        if h.name:
                            env.vars[h.name] = ExcValue(e.cls, e.msg)
                        self.exec_block(h.body, env)
                        handled = True
                        break
                if not handled:
                    raise
            else:
                if node.orelse:
                    self.exec_block(node.orelse, env)
        finally:
            if node.finalbody:
                self.exec_block(node.finalbody, env)

    def s_With(self, node, env):
        raise Unsupported("with statement")

    def s_FunctionDef(self, node, env):
        qn = self.qual_prefix(env) + node.name
        fv = self.make_function(node, env, qn)
        val = fv
        for dec in reversed(node.decorator_list):
            d = self.force(self.eval(dec, env))
            val = self.call(d, [val], {})
        self.set_name(node.name, val, env)

    def qual_prefix(self, env):
        e = env
        parts = []
        while e is not None:
            if "__qualname__" in e.vars:
                parts.append(e.vars["__qualname__"])
                break
            e = e.parent
        return (parts[0] + ".") if parts else ""

    def s_ClassDef(self, node, env):
        bases = [self.force(self.eval(b, env)) for b in node.bases]
        qn = self.qual_prefix(env) + node.name
        cenv = Env(env)
        cenv.vars["__qualname__"] = qn
        self.exec_block(node.body, cenv)
        attrs = {k: v for k, v in cenv.vars.items() if k != "__qualname__"}
        self.set_name(node.name, ClassValue(node.name, bases, attrs, qn), env)

    def s_Import(self, node, env):
        for a in node.names:
            mod = self.loader.import_module(a.name, None, 0)
            if a.asname:
                self.set_name(a.asname, mod, env)
            else:
                top = a.name.split(".")[0]
                self.set_name(top, self.loader.import_module(top, None, 0), env)

    def s_ImportFrom(self, node, env):
        if node.module == "__future__":
            return
        cur = self.current_module(env)
        mod = self.loader.import_module(node.module, cur, node.level)
        for a in node.names:
            if a.name == "*":
                if isinstance(mod, ModuleValue):
                    names = mod.globals.get("__all__")
                    if isinstance(names, SList):
                        names = names.items
                    if names is None:
                        names = [k for k in mod.globals if not k.startswith("_")]
                    for k in names:
                        if k in mod.globals:
                            self.set_name(k, mod.globals[k], env)
                    continue
                raise Unsupported("import * from stub")
            v = self.loader.import_from(mod, a.name)
            self.set_name(a.asname or a.name, v, env)

    def current_module(self, env):
        e = env
        while e is not None:
            if "__module_value__" in e.vars:
                return e.vars["__module_value__"]
            e = e.parent
        return None


# ---------------------------------------------------------------------------------------
# syntactic helpers


class _JumpFinder(ast.NodeVisitor):
    def __init__(self):
        self.found = False

    def visit_Return(self, n):
        self.found = True

    def visit_Raise(self, n):
        self.found = True

    def visit_Break(self, n):
        self.found = True

    def visit_Continue(self, n):
        self.found = True

    def visit_Assert(self, n):
        self.found = True

    def visit_FunctionDef(self, n):
        return

    def visit_Lambda(self, n):
        return


def _block_has_jump(stmts):
    f = _JumpFinder()
    for st in stmts:
        f.visit(st)
        if f.found:
            return True
    return False


def has_jump(ifnode):
    f = _JumpFinder()
    for s in ifnode.body + ifnode.orelse:
        f.visit(s)
        if f.found:
            return True
    return False


def compute_locals(fn):
    names = set()
    a = fn.args
    for p in a.posonlyargs + a.args + a.kwonlyargs:
        names.add(p.arg)
    if a.vararg:
        names.add(a.vararg.arg)
    if a.kwarg:
        names.add(a.kwarg.arg)
    globs = set()

    class Vis(ast.NodeVisitor):
        def visit_Name(self, n):
            if isinstance(n.ctx, (ast.Store, ast.Del)):
                names.add(n.id)

        def visit_FunctionDef(self, n):
            names.add(n.name)

        def visit_ClassDef(self, n):
            names.add(n.name)

        def visit_Lambda(self, n):
            return

        def visit_ListComp(self, n):
            # comprehension targets are scoped to the comprehension; still visit iter of first gen
            self.visit(n.generators[0].iter)

        visit_GeneratorExp = visit_ListComp
        visit_SetComp = visit_ListComp
        visit_DictComp = visit_ListComp

        def visit_Global(self, n):
            globs.update(n.names)

        def visit_Nonlocal(self, n):
            globs.update(n.names)

        def visit_Import(self, n):
            for al in n.names:
                names.add((al.asname or al.name).split(".")[0])

        def visit_ImportFrom(self, n):
            for al in n.names:
                names.add(al.asname or al.name)

        def visit_ExceptHandler(self, n):
            if n.name:
                names.add(n.name)
            self.generic_visit(n)

    v = Vis()
    for s in fn.body:
        v.visit(s)
    return names - globs
