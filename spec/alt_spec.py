"""Altitude codes, Annex 10 Vol IV 3.1.2.6.5.4 (13-bit AC field) and DO-260B 2.2.3.2.3.4
(12-bit ADS-B field = AC without the M bit).

Bit order of the 13-bit field:  C1 A1 C2 A2 C4 A4 M B1 Q B2 D2 B4 D4
  M=1            metric: the 12 remaining bits are metres (converted to feet here)
  M=0, Q=1       25-ft code: N (11 bits, M and Q removed) -> 25*N - 1000 ft
  M=0, Q=0       Gillham (Mode C) code: 500-ft Gray code D2 D4 A1 A2 A4 B1 B2 B4 and the
                 100-ft code C1 C2 C4 in {001,011,010,110,100} = 1..5, reflected when the
                 500-ft count is odd; altitude = 500*n500 + 100*n100 - 1300 ft
  all zero       altitude not available
"""

FT_PER_M = 3.28084


def gray_to_binary(gray):
    """prefix-XOR Gray decode of a binary string (most significant bit first)"""
    b = 0
    n = 0
    for g in gray:
        b = b ^ int(g)
        n = n * 2 + b
    return n


def gillham(D2, D4, A1, A2, A4, B1, B2, B4, C1, C2, C4):
    n500 = gray_to_binary(D2 + D4 + A1 + A2 + A4 + B1 + B2 + B4)
    cc = int(C1 + C2 + C4, 2)
    if cc == 1:
        n100 = 1
    elif cc == 3:
        n100 = 2
    elif cc == 2:
        n100 = 3
    elif cc == 6:
        n100 = 4
    elif cc == 4:
        n100 = 5
    else:
        return None          # 000, 101, 111 are not Mode C codes
    if n500 % 2 == 1:
        n100 = 6 - n100
    return 500 * n500 + 100 * n100 - 1300


def alt13(code):
    """altitude in feet (or None) of a 13-character binary string"""
    if len(code) != 13:
        raise RuntimeError("13 bits expected")
    if int(code, 2) == 0:
        return None
    C1 = code[0]
    A1 = code[1]
    C2 = code[2]
    A2 = code[3]
    C4 = code[4]
    A4 = code[5]
    M = code[6]
    B1 = code[7]
    Q = code[8]
    B2 = code[9]
    D2 = code[10]
    B4 = code[11]
    D4 = code[12]
    if M == "1":
        n = int(C1 + A1 + C2 + A2 + C4 + A4 + B1 + Q + B2 + D2 + B4 + D4, 2)
        return int(n * FT_PER_M)
    if Q == "1":
        n = int(C1 + A1 + C2 + A2 + C4 + A4 + B1 + B2 + D2 + B4 + D4, 2)
        return 25 * n - 1000
    return gillham(D2, D4, A1, A2, A4, B1, B2, B4, C1, C2, C4)


def alt12(field12):
    """ADS-B 12-bit altitude field (TC 9-18): the 13-bit code with M = 0 inserted"""
    return alt13(field12[0:6] + "0" + field12[6:12])
