"""Native runtime for the Python translation of c_common.pyx (see vc/pyx2py.py): the Cython / C-API names
the translated text refers to, with their CPython meaning."""
import array  # noqa: F401  (the translated text uses array.array)
import builtins

bytes = builtins.bytes
bytearray = builtins.bytearray
PyBytes_GET_SIZE = len
PyByteArray_GET_SIZE = len


def _as_char(x):
    """a 1-character str (or an int byte) coerced to a C char"""
    return ord(x) if isinstance(x, str) else x


def _c_narrow(x, bits, signed):
    """the value a C integer variable of the given width holds after `var = x` (two's-complement truncation)"""
    x = int(x)
    x &= (1 << bits) - 1
    if signed and x >> (bits - 1):
        x -= 1 << bits
    return x
