"""C12 - BDS register inference is total, format-sound and complete on plausible data."""
from vc.api import (harness, contract, repo, outcome, assume, ufun, bits_of, hex_of_bits, BinStr, HexStr, IntRange,
                    RealRange, Choice, NATIVE_UF)
from spec import F
from spec import bds_spec
from spec import commb_spec

BDS = repo("pyModeS.decoder.bds")
B10 = repo("pyModeS.decoder.bds.bds10")
B17 = repo("pyModeS.decoder.bds.bds17")
B20 = repo("pyModeS.decoder.bds.bds20")
B30 = repo("pyModeS.decoder.bds.bds30")
B40 = repo("pyModeS.decoder.bds.bds40")
B44 = repo("pyModeS.decoder.bds.bds44")
B45 = repo("pyModeS.decoder.bds.bds45")
B50 = repo("pyModeS.decoder.bds.bds50")
B60 = repo("pyModeS.decoder.bds.bds60")
AERO = repo("pyModeS.extra.aero")
D = "pyModeS.decoder.bds.bds"
MODS = {"is10": B10, "is17": B17, "is20": B20, "is30": B30, "is40": B40, "is44": B44, "is45": B45, "is50": B50,
        "is60": B60}
ISNAMES = ["is10", "is17", "is20", "is30", "is40", "is44", "is45", "is50", "is60"]

for _n in ISNAMES:
    contract(D + _n[2:] + "." + _n)(getattr(bds_spec, _n))


def mach2cas_abstract(Mach, H):
    """contract of aero.mach2cas as far as BDS inference needs it: some real function of (Mach, H)
    (its defining equations are C20's)"""
    return ufun("mach2cas", Mach, H)


def _native_mach2cas(m, h):
    return float(AERO.mach2cas(m, h))


NATIVE_UF["mach2cas"] = _native_mach2cas
contract("pyModeS.extra.aero.mach2cas")(mach2cas_abstract)


def cap17_only_bds20(msg):
    """projection of cap17's contract that is17 needs: 'BDS20' is listed iff MB bit 7 is set
    (GICB_REGISTERS[6] == '20' and no other entry is '20': checked by gicb_table_has_one_bds20)"""
    mb = commb_spec.mb_of(msg)
    return ["BDS20"] if F.bit(mb, 7) == 1 else []


@harness("C12", inputs={}, kind="table")
def gicb_table_has_one_bds20():
    assert commb_spec.GICB_REGISTERS.index("20") == 6 and commb_spec.GICB_REGISTERS.count("20") == 1


def region_roll_sign(msg, name):
    """F15: BDS 5,0 payload with roll status clear, roll sign bit set and roll magnitude zero"""
    if name != "is50":
        return False
    mb = F.me(F.hexbits(msg))
    return F.bit(mb, 1) == 0 and F.bit(mb, 2) == 1 and F.field(mb, 3, 11) == 0


@harness(("C12", "C14", "C17"), inputs={"msg": HexStr(28), "name": Choice(*ISNAMES)},
         functions=[D + n[2:] + "." + n for n in ISNAMES], body_of=[D + n[2:] + "." + n for n in ISNAMES],
         overrides={D + "17.cap17": cap17_only_bds20}, regions=["region_roll_sign"], idealised=True,
         note="is60 compares IAS with an uninterpreted MACH2CAS(mach, altitude)")
def isnn_body(msg, name):
    assert outcome(getattr(MODS[name], name), msg) == outcome(getattr(bds_spec, name), msg), \
        "isNN == status/reserved-bit format rules and plausibility envelope of the register (never raises)"


@harness(("C12", "C14", "C17"), inputs={"msg": HexStr(28), "mrar": Choice(False, True)},
         functions=["pyModeS.decoder.bds.infer"], body_of=["pyModeS.decoder.bds.infer"], idealised=True)
def infer_body(msg, mrar):
    assert outcome(BDS.infer, msg, mrar) == outcome(bds_spec.infer, msg, mrar), \
        "infer == EMPTY / register of the type code / sorted comma-joined set of matching registers / None"
