"""C05 - surface CPR global decode selects the solution nearest the receiver."""
from vc.api import (close, harness, contract, repo, outcome, assume, bits_of, hex_of_bits, BinStr, HexStr, IntRange,
                    RealRange, Choice)
from spec import F
from spec import cpr_spec
from spec import nl_spec

B06 = repo("pyModeS.decoder.bds.bds06")
D6 = "pyModeS.decoder.bds.bds06."

# longitude extent of 45 NM (0.75 degree of arc) in NL band k, in degrees: 0.75 / cos(lat) bounded
# with the same table as C03 (contracts/c03.py COSINV), capped at 44 degrees
from contracts.c03 import COSINV


def lon_reach(k):
    if k == 1:
        return 44
    v = 0.75 * COSINV[k]
    return v if v < 44 else 44


def surface_frame(head, tc, mid, i, yz, xz, parity, case):
    me = bits_of(tc, 5) + mid + bits_of(i, 1) + bits_of(yz, 17) + bits_of(xz, 17)
    return hex_of_bits(head + me + parity, case)


def sample_surface(rng, fixed):
    from contracts.c03 import sample_pair
    d = sample_pair(rng, fixed, surface=True)
    k, dk, newest = fixed["k"], fixed["dk"], fixed["newest"]
    kn = min(max(k if newest == 0 else k + dk, 1), 59)
    d["rlat_off"] = rng.uniform(-0.74, 0.74) * rng.choice([1, 1, 0.01, 0])
    d["rlon_off"] = rng.uniform(-1, 1) * lon_reach(kn) * rng.choice([1, 1, 0.01])
    lat = d["lat_e"]
    if rng.random() < 0.15:            # near the equator / hemisphere switch
        d["lat_e"] = rng.uniform(-1, 1) * 1e-4 if k == 59 else lat
    if rng.random() < 0.3:
        d["lon_e"] = rng.choice([-180.0, 179.999, -179.999]) + rng.uniform(-1, 1) * 1e-3
    return d


@harness("C05", sampler=sample_surface,
         inputs={"lat_e": RealRange(-90, 90), "lon_e": RealRange(-180, 180), "dlat": RealRange(-1, 1),
                 "dlon": RealRange(-10, 10), "rlat_off": RealRange(-1, 1), "rlon_off": RealRange(-45, 45),
                 "rwrap": Choice(-360, 0, 360),
                 "k": Choice(*range(1, 60), quick=[1, 2, 30, 59]), "dk": Choice(-1, 0, 1), "newest": Choice(0, 1),
                 "t_e": RealRange(0, 4000000000), "t_o": RealRange(0, 4000000000),
                 "head_e": BinStr(32), "head_o": BinStr(32), "tc_e": IntRange(0, 31), "tc_o": IntRange(0, 31),
                 "mid_e": BinStr(16), "mid_o": BinStr(16), "par_e": BinStr(24), "par_o": BinStr(24),
                 "case_e": BinStr(28), "case_o": BinStr(28)},
         functions=[D6 + "surface_position"], body_of=[D6 + "surface_position"], idealised=True,
         regions=["region_equator", "region_antimeridian"],
         timeout={"quick": 120000, "thorough": 900000})
def surface_global_decode(lat_e, lon_e, dlat, dlon, rlat_off, rlon_off, rwrap, k, dk, newest, t_e, t_o,
                          head_e, head_o, tc_e, tc_o, mid_e, mid_o, par_e, par_o, case_e, case_o):
    k_o = k + dk
    assume(1 <= k_o and k_o <= 59)
    # the surface encoding cannot represent +-90 exactly (Rlat is taken modulo 90): inherent, excluded
    assume(-89.999 <= lat_e and lat_e <= 89.999)
    lat_o = lat_e + dlat
    lon_o = lon_e + dlon
    assume(-89.999 <= lat_o and lat_o <= 89.999)
    assume(-0.0116 <= dlat and dlat <= 0.0116)                  # 0.7 NM (the statement needs 0.2 NM)
    kn = k if newest == 0 else k_o
    assume(-lon_reach(kn) / 225 <= dlon and dlon <= lon_reach(kn) / 225)   # 0.2 NM = 45 NM / 225
    assume((t_e > t_o) if newest == 0 else (t_o > t_e))
    yz_e, rlat_e = cpr_spec.encode_lat(lat_e, 0, True)
    yz_o, rlat_o = cpr_spec.encode_lat(lat_o, 1, True)
    assume(nl_spec.NL(rlat_e) == k)
    assume(nl_spec.NL(rlat_o) == k_o)
    xz_e, rlon_e = cpr_spec.encode_lon(lon_e, k, 0, True)
    xz_o, rlon_o = cpr_spec.encode_lon(lon_o, k_o, 1, True)
    # receiver within 45 NM of the newer position (and less than 45 degrees of longitude away);
    # its longitude may be given in any 360-degree representation inside [-180, 180]
    lat_n = lat_e if newest == 0 else lat_o
    lon_n = lon_e if newest == 0 else lon_o
    assume(-0.74 <= rlat_off and rlat_off <= 0.74)
    assume(-lon_reach(kn) <= rlon_off and rlon_off <= lon_reach(kn))
    lat_ref = lat_n + rlat_off
    lon_ref = lon_n + rlon_off + rwrap
    assume(-90 <= lat_ref and lat_ref <= 90 and -180 <= lon_ref and lon_ref <= 180)
    msg_e = surface_frame(head_e, tc_e, mid_e, 0, yz_e, xz_e, par_e, case_e)
    msg_o = surface_frame(head_o, tc_o, mid_o, 1, yz_o, xz_o, par_o, case_o)
    # (the even frame is passed first: surface_position() documents msg0 = even, msg1 = odd)
    r = B06.surface_position(msg_e, msg_o, t_e, t_o, lat_ref, lon_ref)
    if dk != 0:
        assert r is None, "None when the two frames' latitudes lie in different NL bands"
    else:
        assert r is not None, "a position is returned when both frames lie in the same NL band"
        i_n = 0 if newest == 0 else 1
        s_lat = cpr_spec.lat_step(i_n, True)
        assert -s_lat <= r[0] - lat_n and r[0] - lat_n <= s_lat, \
            "latitude within one quantisation step of the position carried by the newer frame (receiver's side of the equator or not)"
        assert cpr_spec.within_mod360(r[1], lon_n, cpr_spec.lon_step(k, i_n, True)), \
            "longitude within one quantisation step of the position carried by the newer frame, modulo 360 (the solution nearest the receiver)"


def region_equator(lat_e, lon_e, dlat, dlon, rlat_off, rlon_off, rwrap, k, dk, newest, t_e, t_o,
                   head_e, head_o, tc_e, tc_o, mid_e, mid_o, par_e, par_o, case_e, case_o):
    """F9a: receiver and target on opposite sides of the equator (or receiver exactly on it)"""
    lat_n = lat_e if newest == 0 else lat_e + dlat
    lat_ref = lat_n + rlat_off
    return (lat_ref <= 0 and lat_n > -0.0001) or (lat_ref > 0 and lat_n < 0.0001)


def region_antimeridian(lat_e, lon_e, dlat, dlon, rlat_off, rlon_off, rwrap, k, dk, newest, t_e, t_o,
                        head_e, head_o, tc_e, tc_o, mid_e, mid_o, par_e, par_o, case_e, case_o):
    """F9b: receiver and target on opposite sides of the antimeridian"""
    return rwrap != 0
