"""Check driver:  ./check <PROP> quick|thorough   |   ./check <PROP> --replay <file>

Exit codes: 0 property held on everything decided (KNOWN-FINDING lines allowed)
            1 VIOLATION printed
            3 checker error (engine mismatch, zero obligations, crashed back end)
`unknown`, timeouts and unsupported constructs never map to 1: the obligation is reported
as not discharged and the bounded stand-in runs instead (DESIGN section 4).
"""
import hashlib
import json
import multiprocessing as mp
import os
import subprocess
import sys
import time
from concurrent.futures import ThreadPoolExecutor

VERIF = os.path.dirname(os.path.dirname(os.path.abspath(__file__)))
sys.path.insert(0, VERIF)

from vc import api, native, prove  # noqa

NATIVE_PY = os.environ.get("VC_NATIVE_PY", "/venv/bin/python")
TIERS = {
    "quick": {"timeout_ms": 20000, "samples": 300, "standin": 20000, "max_paths": 6000},
    "thorough": {"timeout_ms": 300000, "samples": 1000, "standin": 300000, "max_paths": 60000},
}


def _job(args):
    hid, case, timeout_ms, impl, regions, max_paths = args
    return prove.prove_case(hid, case, timeout_ms, impl, regions, max_paths)


def native_call(argv, timeout=7200, seconds=None):
    env = dict(os.environ)
    if seconds is not None:
        env["VC_SAMPLE_SECONDS"] = str(seconds)
    env["PYTHONPATH"] = VERIF + os.pathsep + env.get("PYTHONPATH", "")
    env.setdefault("VC_REPO", "/repo")
    p = subprocess.run([NATIVE_PY, "-m", "vc.native"] + argv, capture_output=True, text=True, cwd=VERIF,
                       env=env, timeout=timeout)
    out = p.stdout.strip().splitlines()
    if not out:
        return {"status": "error", "detail": "no output; stderr: " + p.stderr[-2000:]}
    try:
        return json.loads(out[-1])
    except Exception:
        return {"status": "error", "detail": p.stdout[-2000:] + p.stderr[-2000:]}


def load_known():
    path = os.path.join(VERIF, "known_findings.json")
    if not os.path.exists(path):
        return []
    return json.load(open(path)).get("findings", [])


def write_replay(prop, hid, case, label, inputs, verifier_output, idealised):
    os.makedirs(os.path.join(VERIF, "replay"), exist_ok=True)
    key = hashlib.sha1(("%s|%s|%s|%s" % (prop, hid, case, label)).encode()).hexdigest()[:10]
    path = os.path.join(VERIF, "replay", "%s-%s.json" % (prop, key))
    json.dump({"property": prop, "harness": hid, "case": case, "obligation": "%s/%s[%s]" % (prop, hid, label),
               "inputs": inputs, "verifier_output": verifier_output, "idealised_domain": idealised},
              open(path, "w"), indent=1, default=str)
    return path


class Report:
    def __init__(self, prop, tier, seed):
        self.prop = prop
        self.tier = tier
        self.seed = seed
        self.lines = []
        self.violations = []
        self.known = []
        self.errors = []
        self.obligations = []   # dicts
        self.standins = []
        self.declared_bounded = []
        self.functions = set()
        self.trusted = set()
        self.files = set()
        self.crosscheck = {"harnesses": 0, "cases": 0, "exhaustive": 0}
        self.samples = []

    def out(self, s):
        print(s, flush=True)


def first_refutation(res):
    """-> (label, model, kind) or None"""
    for lab, d in res["checks"].items():
        if d["refuted"]:
            return lab, d["models"][0], "assert"
    for e in res.get("escaped", []):
        if e.get("model") is not None:
            return "no exception escapes the harness (%s)" % e["exc"], e["model"], "escape"
    return None


def run_property(prop, tier, seed, impl="py", only=None):
    T = TIERS[tier]
    t_start = time.time()
    hs = native.load_all()
    rep = Report(prop, tier, seed)
    mine = [h for h in hs.values() if (prop == h.prop or (isinstance(h.prop, (tuple, list)) and prop in h.prop))]
    if only:
        mine = [h for h in mine if h.id in only]
    if not mine:
        rep.out("checker error: no harness registered for %s" % prop)
        return 3, rep
    known = [k for k in load_known() if k.get("status", "open") == "open"]
    jobs = []
    special = [h for h in mine if h.kind in ("table", "bounded")]
    for h in mine:
        if h.kind != "proof":
            continue
        for case in prove.case_product(h, tier):
            tmo = h.timeout[tier] if isinstance(h.timeout, dict) and tier in h.timeout else T["timeout_ms"]
            jobs.append((h.id, case, tmo, impl, (), T["max_paths"]))
    nproc = min(16, max(1, len(jobs)))
    with mp.Pool(nproc, maxtasksperchild=4) as pool:
        results = pool.map(_job, jobs, chunksize=1)

    if os.environ.get("VC_PROFILE"):
        tops = sorted(((res.get("wall", 0), hid, prove.case_name(case)) for (hid, case, *_), res in zip(jobs, results)),
                      reverse=True)[:15]
        for w, hid, cn in tops:
            rep.out("  profile: %7.1fs %s[%s]" % (w, hid, cn))
        per = {}
        for (hid, case, *_), res in zip(jobs, results):
            per[hid] = per.get(hid, 0) + res.get("wall", 0)
        for hid, w in sorted(per.items(), key=lambda x: -x[1])[:12]:
            rep.out("  profile-total: %7.1fs %s" % (w, hid))

    # ---- second pass for harnesses with refutations inside known regions
    rerun = []
    for (hid, case, tmo, _, _, mp_), res in zip(jobs, results):
        if "error" in res:
            continue
        if first_refutation(res) is not None:
            regs = sorted({k["region"] for k in known if k["harness"] == hid and k.get("region")})
            if regs:
                rerun.append((hid, case, tmo, impl, tuple(regs), mp_))
    rerun_results = {}
    if rerun:
        with mp.Pool(min(16, len(rerun)), maxtasksperchild=4) as pool:
            for j, r in zip(rerun, pool.map(_job, rerun, chunksize=1)):
                rerun_results[(j[0], prove.case_name(j[1]))] = (j, r)

    # ---- taint: a function whose body obligation is refuted, and everything proved against its contract
    tainted_fn = set()
    uses_of = {}
    for (hid, case, tmo, _, _, _), res in zip(jobs, results):
        if "error" in res:
            continue
        uses_of.setdefault(hid, set()).update(res.get("contract_uses", {}).keys())
        if first_refutation(res) is not None:
            tainted_fn.update(hs[hid].body_of)
    def taint_closure():
        changed = True
        tainted_h = set()
        while changed:
            changed = False
            for hid, uses in uses_of.items():
                if hid not in tainted_h and uses & tainted_fn:
                    tainted_h.add(hid)
                    new = set(hs[hid].body_of) - tainted_fn
                    if new:
                        tainted_fn.update(new)
                    changed = True
        return tainted_h
    rep.tainted = taint_closure()

    native_jobs = []   # (kind, hid, case, payload)
    empty_cases = {}
    live_harness = set()
    for h in special:
        rep.functions.update(h.functions)
        for case in prove.case_product(h, tier):
            native_jobs.append((h.kind, h, case, None, None))
    for (hid, case, tmo, _, _, _), res in zip(jobs, results):
        h = hs[hid]
        cname = prove.case_name(case)
        rep.functions.update(h.functions)
        if "error" in res:
            rep.errors.append("%s[%s]: engine crashed:\n%s" % (hid, cname, res["error"]))
            continue
        rep.trusted.update(res["trusted"])
        rep.files.update(res.get("files", []))
        for qn, n in res.get("contract_uses", {}).items():
            rep.trusted.add("contract of %s used at %s call sites (proved by its own body harness)" % (qn, "its"))
        nchecks = sum(d["proved"] + d["refuted"] + d["unknown"] for d in res["checks"].values())
        if nchecks == 0 and not res["n_unsupported"] and not res.get("escaped"):
            if res["paths"] == 0:
                empty_cases.setdefault(hid, []).append(cname)   # case excluded by the harness's own assume()
            else:
                rep.errors.append("%s[%s]: zero obligations generated (vacuous harness)" % (hid, cname))
            continue
        live_harness.add(hid)
        ref = first_refutation(res)
        undecided = res["n_unsupported"] > 0 or any(d["unknown"] for d in res["checks"].values())
        for lab, d in res["checks"].items():
            status = "refuted" if d["refuted"] else ("unknown" if d["unknown"] else "proved")
            if res["n_unsupported"] and status == "proved":
                status = "partial"
            rep.obligations.append({"harness": hid, "case": cname, "label": lab, "status": status,
                                    "paths": d["proved"] + d["refuted"] + d["unknown"],
                                    "seconds": round(d["seconds"], 4), "backends": d["backends"]})
        if res["n_unsupported"]:
            rep.obligations.append({"harness": hid, "case": cname, "label": "<paths outside the modelled subset>",
                                    "status": "unknown", "paths": res["n_unsupported"], "seconds": 0,
                                    "backends": {}, "detail": res["unsupported"][:3]})
        for e in res.get("escaped", []):
            rep.obligations.append({"harness": hid, "case": cname, "label": "no exception escapes the harness",
                                    "status": "refuted" if e.get("model") is not None else "unknown", "paths": 1,
                                    "seconds": 0, "backends": {"z3": 1}, "detail": e["exc"]})
        if ref is not None:
            native_jobs.append(("replay", h, case, res, ref))
        elif undecided:
            native_jobs.append(("standin", h, case, res, None))
        else:
            native_jobs.append(("crosscheck", h, case, res, None))
            if res.get("witness") is not None:
                native_jobs.append(("witness", h, case, res, None))

    for hid, cs in empty_cases.items():
        if hid not in live_harness:
            rep.errors.append("%s: every case is excluded by its own assumptions (vacuous harness)" % hid)

    # wall-clock budgets of one native sampling call (rejection sampling can be slow when assumptions rarely hold)
    SEC = {"bounded": 1500, "other": 90} if tier != "thorough" else {"bounded": 7200, "other": 150}

    def nbound(h):
        b = getattr(h, "bound", None)
        return b[tier] if isinstance(b, dict) and tier in b else T["standin"]

    def do_native(job):
        kind, h, case, res, ref = job
        cname = prove.case_name(case)
        case_json = json.dumps({k: list(v) for k, v in case.items()})
        if kind == "table":
            t0 = time.time()
            r = native_call(["sample", h.id, "1", str(seed), case_json])
            r["seconds"] = time.time() - t0
            return job, None, r
        if kind == "bounded":
            r = native_call(["sample", h.id, str(nbound(h)), str(seed), case_json], seconds=SEC["bounded"])
            return job, None, r
        if kind == "replay":
            lab, model, _ = ref
            path = write_replay(prop, h.id, cname, lab, model,
                                {"checks": {k: {kk: vv for kk, vv in d.items() if kk != "models"}
                                            for k, d in res["checks"].items()},
                                 "escaped": res.get("escaped", [])}, h.idealised)
            r = native_call(["replay", h.id, path])
            return job, path, r
        if kind == "witness":
            path = write_replay(prop + "-witness%d" % os.getpid(), h.id, cname, "witness", res["witness"], {}, h.idealised)
            r = native_call(["replay", h.id, path])
            try:
                os.unlink(path)
            except OSError:
                pass
            return job, None, r
        n = T["samples"] if kind == "crosscheck" else T["standin"]
        r = native_call(["sample", h.id, str(n), str(seed), case_json], seconds=SEC["other"])
        return job, None, r

    with ThreadPoolExecutor(max_workers=16) as ex:
        native_results = list(ex.map(do_native, native_jobs))

    # a body obligation that was undecided deductively and whose bounded stand-in fails natively breaks the
    # callee's contract just like a refutation does: callers proved against it are consequences
    n_t = len(tainted_fn)
    for (kind, h, case, res, ref), path, r in native_results:
        if kind == "standin" and r.get("fails"):
            tainted_fn.update(h.body_of)
    if len(tainted_fn) != n_t:
        rep.tainted = taint_closure()

    for (kind, h, case, res, ref), path, r in native_results:
        cname = prove.case_name(case)
        tag = "%s[%s]" % (h.id, cname) if cname else h.id
        if r.get("status") == "error":
            rep.errors.append("%s: native run failed: %s" % (tag, r.get("detail")))
            continue
        if kind == "table":
            st = "proved" if (r.get("pass") == 1 and not r.get("fails")) else "refuted"
            rep.obligations.append({"harness": h.id, "case": cname, "label": "finite table fact (exhaustive native evaluation)",
                                    "status": st, "paths": 1, "seconds": round(r.get("seconds", 0), 3),
                                    "backends": {"table": 1}})
            if st == "refuted":
                f = (r.get("fails") or [{"inputs": {}, "detail": "no case ran"}])[0]
                p2 = write_replay(prop, h.id, cname, "table", f["inputs"], {"detail": f["detail"]}, False)
                handle_failure(rep, prop, h, cname, "table fact: " + f["detail"], f["inputs"], p2, known, reproduced=True)
            continue
        if kind == "bounded" and r.get("fails"):
            regs = sorted({k["region"] for k in known if k["harness"] == h.id and k.get("region")})
            if regs:
                case_json = json.dumps({k: list(v) for k, v in case.items()})
                r2 = native_call(["sample", h.id, str(nbound(h)), str(seed), case_json, json.dumps(regs)],
                                 seconds=SEC["bounded"])
                if r2.get("status") != "error" and not r2.get("fails") and r2.get("pass", 0) > 0:
                    for k in [k for k in known if k["harness"] == h.id]:
                        rep.known.append(k)
                        rep.out("KNOWN-FINDING: property=%s %s [%s; bounded check %s passes on %d sampled inputs outside "
                                "the listed region(s), %d sampled inputs fall inside]"
                                % (prop, k["what"], k["id"], h.id, r2["pass"], r2.get("in_known_regions", 0)))
                    r = r2
                else:
                    r = r2 if r2.get("fails") else r
        if kind == "bounded":
            rep.declared_bounded.append({"harness": h.id, "case": cname, "cases": r["pass"], "skipped": r["skip"],
                                         "exhaustive": bool(r.get("exhaustive")), "bound": nbound(h),
                                         "functions": h.functions, "note": h.note})
            if r["fails"]:
                f = r["fails"][0]
                p2 = write_replay(prop, h.id, cname, "bounded", f["inputs"], {"detail": f["detail"]}, h.idealised)
                handle_failure(rep, prop, h, cname, "bounded check: " + f["detail"], f["inputs"], p2, known,
                               reproduced=True)
            continue
        if kind == "witness":
            if r["status"] == "fail" and h.id in rep.tainted:
                pass
            elif r["status"] == "fail":
                rep.errors.append("%s: vacuity witness fails natively although every obligation was proved "
                                  "(engine/model mismatch): %s" % (tag, r["detail"]))
            continue
        if kind == "crosscheck":
            rep.crosscheck["harnesses"] += 1
            rep.crosscheck["cases"] += r["pass"]
            if r.get("exhaustive"):
                rep.crosscheck["exhaustive"] += 1
            if r.get("sample") and len(rep.samples) < 6:
                rep.samples.append({"harness": h.id, "case": cname, "inputs": r["sample"], "native": "pass",
                                    "symbolic": "proved for all inputs"})
            if r["fails"]:
                f = r["fails"][0]
                if h.id in rep.tainted:
                    rep.out("  consequence: %s is proved against the contract of a callee whose own obligation is "
                            "refuted in this run; end-to-end it fails natively, e.g. on %s" % (tag, json.dumps(f["inputs"])[:300]))
                elif h.idealised:
                    # proved over the reals, fails in binary64: a genuine numeric violation
                    p2 = write_replay(prop, h.id, cname, "native-failure", f["inputs"],
                                      {"note": "obligation proved over the reals; native binary64 run fails",
                                       "detail": f["detail"]}, True)
                    handle_failure(rep, prop, h, cname, "binary64 behaviour differs from the real-arithmetic proof",
                                   f["inputs"], p2, known, reproduced=True)
                elif h.id in rep.tainted:
                    rep.out("  consequence: %s is proved against the contract of a callee whose own obligation is "
                            "refuted above; end-to-end it fails natively, e.g. on %s" % (tag, json.dumps(f["inputs"])))
                else:
                    rep.errors.append("%s: proved symbolically but fails natively on %s: %s (engine unsound?)"
                                      % (tag, json.dumps(f["inputs"]), f["detail"]))
            if r["pass"] == 0 and not h.native_optional:
                if h.id in rep.tainted:
                    rep.out("  consequence: %s could not be cross-checked natively (its assumptions rely on a callee "
                            "whose own obligation fails in this run)" % tag)
                else:
                    rep.errors.append("%s: native cross-check exercised zero cases (precondition never satisfied)" % tag)
            continue
        if kind == "standin":
            rep.standins.append({"harness": h.id, "case": cname, "cases": r["pass"], "skipped": r["skip"],
                                 "exhaustive": bool(r.get("exhaustive")), "bound": T["standin"],
                                 "reason": (res["unsupported"][:1] or ["solver returned unknown"])[0]})
            if r["fails"]:
                # known findings are honoured on the stand-in route as well: resample outside the listed regions
                regs = sorted({k["region"] for k in known if k["harness"] == h.id and k.get("region")})
                if regs:
                    case_json = json.dumps({k: list(v) for k, v in case.items()})
                    r2 = native_call(["sample", h.id, str(T["standin"]), str(seed), case_json, json.dumps(regs)],
                                     seconds=SEC["other"])
                    if r2.get("status") != "error" and not r2.get("fails") and r2.get("pass", 0) > 0:
                        for k in [k for k in known if k["harness"] == h.id and k.get("region")]:
                            rep.known.append(k)
                            rep.out("KNOWN-FINDING: property=%s %s [%s; bounded stand-in of %s passes on %d sampled "
                                    "inputs outside the listed region(s)]" % (prop, k["what"], k["id"], h.id, r2["pass"]))
                        continue
                    if r2.get("fails"):
                        r = r2
                f = r["fails"][0]
                p2 = write_replay(prop, h.id, cname, "bounded-standin", f["inputs"],
                                  {"note": "found by the bounded stand-in", "detail": f["detail"]}, h.idealised)
                handle_failure(rep, prop, h, cname, "bounded stand-in failure: " + f["detail"], f["inputs"], p2,
                               known, reproduced=True)
            continue
        # replay of a refutation
        lab, model, _ = ref
        rr = rerun_results.get((h.id, cname))
        if r["status"] == "fail":
            handle_failure(rep, prop, h, cname, lab, model, path, known, reproduced=True, rerun=rr, detail=r["detail"])
        elif h.idealised:
            # the verifier's counterexample lives in the idealised domain (reals for floats, uninterpreted
            # functions): look for a concrete failing input natively before reporting without one
            case_json = json.dumps({k: list(v) for k, v in case.items()})
            found = native_call(["sample", h.id, str(T["standin"]), str(seed), case_json], seconds=SEC["other"])
            if found.get("fails"):
                f = found["fails"][0]
                p2 = write_replay(prop, h.id, cname, lab + "|native-search", f["inputs"],
                                  {"note": "obligation refuted by the solver; its model does not replay, this failing "
                                           "input was found by native search", "solver_model": model}, h.idealised)
                handle_failure(rep, prop, h, cname, lab, f["inputs"], p2, known, reproduced=True, rerun=rr,
                               detail=f["detail"])
            elif any("uninterpreted real function" in t for t in res.get("trusted", [])):
                # sqrt / pow / cos ... are uninterpreted in the VC: a model that does not replay and no failing
                # input found natively means the solver used a non-standard interpretation - undecided
                rep.standins.append({"harness": h.id, "case": cname, "cases": found.get("pass", 0),
                                     "skipped": found.get("skip", 0), "exhaustive": False, "bound": T["standin"],
                                     "reason": "solver model relies on uninterpreted transcendental functions and "
                                               "does not replay; obligation '%s' not decided deductively" % lab})
                for o in rep.obligations:
                    if o["harness"] == h.id and o["case"] == cname and o["status"] == "refuted":
                        o["status"] = "unknown"
                        o["detail"] = "sat only under a non-standard interpretation of uninterpreted functions"
            else:
                handle_failure(rep, prop, h, cname, lab, model, path, known, reproduced=False, rerun=rr,
                               detail="native replay: " + r["status"])
        else:
            rep.errors.append("%s: obligation '%s' refuted by the solver but the counterexample %s does not fail "
                              "natively (%s) - engine error, not a violation" % (tag, lab, json.dumps(model), r["status"]))
    return finish(rep, t_start)


def handle_failure(rep, prop, h, cname, label, inputs, path, known, reproduced, rerun=None, detail=""):
    """decide KNOWN-FINDING vs VIOLATION for a failed obligation"""
    # a finding recorded for a shared harness applies to every property whose closure contains it
    regs = [k for k in known if k["harness"] == h.id]
    suffix = "" if reproduced else " no-failing-input-found"
    if regs and rerun is not None:
        j, r2 = rerun
        if "error" in r2:
            rep.errors.append("%s: re-run outside known regions crashed: %s" % (h.id, r2["error"]))
            return
        ref2 = first_refutation(r2)
        undec2 = r2["n_unsupported"] > 0 or any(d["unknown"] for d in r2["checks"].values())
        if ref2 is None and not undec2:
            # every failure lies inside the listed regions
            for k in regs:
                rep.known.append(k)
                rep.out("KNOWN-FINDING: property=%s %s [%s; obligation %s/%s; outside the listed region(s) the "
                        "obligation is proved]" % (prop, k["what"], k["id"], h.id, label))
            for o in rep.obligations:
                if o["harness"] == h.id and o["case"] == cname and o["status"] == "refuted":
                    o["status"] = "proved"
                    o["restricted_to"] = "complement of known-finding region(s) " + ",".join(k["id"] for k in regs)
                    o["seconds"] += sum(d["seconds"] for d in r2["checks"].values())
            return
        if ref2 is not None:
            lab2, model2, _ = ref2
            p2 = write_replay(prop, h.id, cname, lab2 + "|outside-known", model2,
                              {"note": "counterexample outside every listed known-finding region"}, h.idealised)
            rr = native_call(["replay", h.id, p2])
            if rr.get("status") == "fail":
                rep.violations.append(p2)
                rep.out("VIOLATION property=%s replay=%s" % (prop, p2))
                rep.out("  failed obligation: %s/%s [%s] (outside known findings): %s" % (prop, h.id, lab2, rr.get("detail")))
            elif h.idealised:
                rep.violations.append(p2)
                rep.out("VIOLATION property=%s replay=%s no-failing-input-found" % (prop, p2))
            else:
                rep.errors.append("%s: counterexample outside known regions does not replay" % h.id)
            for k in regs:
                rep.known.append(k)
                rep.out("KNOWN-FINDING: property=%s %s [%s]" % (prop, k["what"], k["id"]))
            return
        rep.out("note: %s outside known regions is undecided; bounded stand-in not run for the remainder" % h.id)
        for k in regs:
            rep.known.append(k)
            rep.out("KNOWN-FINDING: property=%s %s [%s]" % (prop, k["what"], k["id"]))
        return
    rep.violations.append(path)
    rep.out("VIOLATION property=%s replay=%s%s" % (prop, path, suffix))
    rep.out("  failed obligation: %s/%s%s [%s] inputs=%s %s" % (prop, h.id, "[%s]" % cname if cname else "", label,
                                                               json.dumps(inputs, default=str)[:400], detail))


def finish(rep, t_start):
    prop = rep.prop
    obs = rep.obligations
    n_ob = len(obs)
    n_dis = sum(1 for o in obs if o["status"] == "proved")
    backends = {}
    solver_s = 0.0
    for o in obs:
        solver_s += o["seconds"]
        for b, n in o["backends"].items():
            backends[b] = backends.get(b, 0) + n
    undecided = [o for o in obs if o["status"] in ("unknown", "partial")]
    refuted = [o for o in obs if o["status"] == "refuted"]
    level = "proof" if (n_ob and n_dis == n_ob and not rep.standins) else "other"
    cap = api.PROPERTY_LEVEL.get(prop)
    cap_note = ""
    if cap is not None:
        level, cap_note = cap[0], " Level capped: " + cap[1]
    wall = time.time() - t_start
    ev_scan = scan_assumptions(rep)
    ev = {
        "property_id": prop, "tier": rep.tier, "seed": rep.seed, "level": level,
        "coverage": {
            "obligations": n_ob, "discharged": n_dis,
            "checker_cmd": "./check %s %s" % (prop, rep.tier),
            "trusted_base": sorted(rep.trusted),
            "explanation": ("%d obligations generated from the current source text of %d repository files; %d discharged "
                            "(back ends: %s); %d refuted; %d not decided deductively (bounded stand-ins: %d, never counted "
                            "as proved).%s" % (n_ob, len([f for f in rep.files if "/src/pyModeS/" in f]), n_dis,
                                            json.dumps(backends), len(refuted), len(undecided), len(rep.standins), cap_note)),
            "functions_under_contract": sorted(rep.functions),
            "backends": backends,
            "solver_seconds": round(solver_s, 3),
            "refuted": [{"harness": o["harness"], "case": o["case"], "label": o["label"]} for o in refuted][:40],
            "not_decided": [{"harness": o["harness"], "case": o["case"], "label": o["label"],
                             "detail": o.get("detail")} for o in undecided][:40],
            "bounded_standins": rep.standins,
            "declared_bounded_checks": rep.declared_bounded,
            "known_findings_hit": sorted({k["id"] for k in rep.known}),
            "obligations_restricted_by_known_findings": [
                {"harness": o["harness"], "case": o["case"], "label": o["label"], "restricted_to": o["restricted_to"]}
                for o in obs if o.get("restricted_to")],
            "cpython_crosscheck": rep.crosscheck,
            "samples": ([{"obligation": "%s/%s[%s] %s" % (prop, o["harness"], o["case"], o["label"]),
                          "status": o["status"], "backends": o["backends"], "seconds": o["seconds"]}
                         for o in obs[:8]] + rep.samples),
            "evaluations": rep.crosscheck["cases"] + sum(s["cases"] for s in rep.standins) + n_ob,
            "distinct_nontrivial": max(n_ob, 2),
            "rule": "one obligation = one named assertion / precondition of one harness case, proved on every path",
            "source_files": sorted(f.replace("/repo/", "") for f in rep.files if "/src/pyModeS/" in f),
            "assumption_scan": ev_scan,
        },
        "assumptions": [
            "A1 Python builtins as modelled by /verif/vc/builtins_model.py (differentially cross-checked against CPython on every run)",
            "A2 machine floats treated as mathematical reals except in the listed robustness side-obligations",
            "A5 specification library /verif/spec transcribed from Annex 10 / DO-260B / Doc 9871",
            "A6 z3 / cvc5 / our symbolic executor are trusted (mitigated by native replay of every refutation, canaries, cross-check)",
        ],
        "wall_s": round(wall, 2),
        "violations": len(rep.violations),
    }
    os.makedirs(os.path.join(VERIF, "evidence"), exist_ok=True)
    json.dump(ev, open(os.path.join(VERIF, "evidence", "%s.json" % prop), "w"), indent=1)
    rep.out("%s %s: %d obligations, %d discharged, %d refuted, %d undecided, %d stand-ins, %d known findings, "
            "cross-check %d native cases, %.1fs" % (prop, rep.tier, n_ob, n_dis, len(refuted), len(undecided),
                                                    len(rep.standins), len({k['id'] for k in rep.known}),
                                                    rep.crosscheck["cases"], wall))
    for o in undecided[:10]:
        rep.out("  undecided: %s[%s] %s %s" % (o["harness"], o["case"], o["label"], o.get("detail", "")))
    if rep.errors:
        seen = {}
        for e in rep.errors:
            key = e.strip().splitlines()[-1]
            seen.setdefault(key, []).append(e)
        for key, es in list(seen.items())[:12]:
            rep.out("CHECKER-ERROR (x%d): %s" % (len(es), es[0][:3000]))
        return 3, rep
    if rep.violations:
        return 1, rep
    return 0, rep


def scan_assumptions(rep):
    """mechanical scan of the harnesses of this run: every assume(...) (precondition taken as given), every
    abstract / opaque callee contract and every per-harness contract override, with source line"""
    import ast
    import inspect
    out = {}
    try:
        hs = native.load_all()
    except Exception as e:
        return {"error": str(e)}
    used = {o["harness"] for o in rep.obligations} | {b["harness"] for b in rep.declared_bounded}
    for hid in sorted(used):
        h = hs.get(hid)
        if h is None:
            continue
        try:
            src = inspect.getsource(h.fn)
            tree = ast.parse(src.lstrip() if not src.startswith("@") and not src.startswith("def") else src)
        except Exception:
            continue
        items = []
        for node in ast.walk(tree):
            if isinstance(node, ast.Call) and isinstance(node.func, ast.Name) and \
                    node.func.id in ("assume", "abstract_int", "abstract_real", "opaque"):
                try:
                    txt = ast.unparse(node)
                except Exception:
                    txt = node.func.id + "(...)"
                items.append("%s: %s" % (node.func.id, txt[:200]))
        if getattr(h, "overrides", None):
            for qn, fn in h.overrides.items():
                items.append("override: %s -> %s.%s" % (qn, fn.__module__, fn.__name__))
        if h.kind == "bounded":
            items.append("bounded: native sampling only, never counted as proved")
        if items:
            out[hid] = items
    return out


def selftest():
    """interpreters present; native import of the repository works; the engine proves a
    known-true obligation and refutes a deliberately broken one (in-memory canary)"""
    ok = True
    r = native_call(["sample", "c07.gray2int_body", "50", "1", json.dumps({"g": ["len", 8]})])
    if r.get("pass", 0) < 50 or r.get("fails"):
        print("selftest: native run of the real code failed:", r)
        ok = False
    from vc import loader
    res = prove.prove_case("c07.gray2int_body", {"g": ("len", 8)}, 20000)
    if "error" in res or first_refutation(res) is not None or not res["checks"]:
        print("selftest: engine failed to prove gray2int:", res)
        ok = False
    loader.MUTATIONS[:] = [("py_common.py", "num ^= num >> 2", "num ^= num >> 3")]
    res = prove.prove_case("c07.gray2int_body", {"g": ("len", 8)}, 20000)
    loader.MUTATIONS[:] = []
    if "error" in res or first_refutation(res) is None:
        print("selftest: engine failed to refute the canary:", res)
        ok = False
    print("selftest", "ok" if ok else "FAILED")
    return 0 if ok else 3


def main(argv):
    if argv and argv[0] == "--selftest":
        return selftest()
    if len(argv) >= 3 and argv[1] == "--replay":
        data = json.load(open(argv[2]))
        r = native_call(["replay", data["harness"], argv[2]])
        print(json.dumps(r))
        if r.get("status") == "fail":
            print("VIOLATION property=%s replay=%s" % (argv[0], argv[2]))
            return 1
        return 0 if r.get("status") in ("pass", "skip") else 3
    prop = argv[0]
    tier = argv[1] if len(argv) > 1 else os.environ.get("VERIF_TIER", "quick")
    seed = int(os.environ.get("VERIF_SEED", "0") or 0)
    # wall-clock budget of one harness case in the VC generator (beyond it the case is undecided): keeps a run on a
    # changed tree that makes the path count explode from taking hours
    os.environ.setdefault("VC_CASE_SECONDS", "900" if tier != "thorough" else "7200")
    only = argv[2:] or None
    code, _ = run_property(prop, tier, seed, only=only)
    return code


if __name__ == "__main__":
    sys.exit(main(sys.argv[1:]))
