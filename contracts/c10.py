"""C10 - aircraft identification: callsign and category round-trip."""
from vc.api import (harness, contract, repo, outcome, assume, bits_of, hex_of_bits, BinStr, HexStr, IntRange)
from spec import F
from spec import adsb_spec

BDS08 = repo("pyModeS.decoder.bds.bds08")
BDS20 = repo("pyModeS.decoder.bds.bds20")

contract("pyModeS.decoder.bds.bds08.callsign")(adsb_spec.callsign)
contract("pyModeS.decoder.bds.bds08.category")(adsb_spec.category)
contract("pyModeS.decoder.bds.bds20.cs20")(adsb_spec.cs20)

CODES = {"c%d" % i: IntRange(0, 63) for i in range(8)}


def legal(c):
    return (1 <= c and c <= 26) or c == 32 or (48 <= c and c <= 57)


@harness("C10", inputs=dict(CODES, head=BinStr(32), tc=IntRange(1, 4), cat=IntRange(0, 7), parity=BinStr(24),
                           case=BinStr(28)),
         functions=["pyModeS.decoder.bds.bds08.callsign", "pyModeS.decoder.bds.bds08.category"])
def callsign_roundtrip(c0, c1, c2, c3, c4, c5, c6, c7, head, tc, cat, parity, case):
    d = F.df_of(head)
    assume(d == 17 or d == 18)
    assume(legal(c0) and legal(c1) and legal(c2) and legal(c3) and legal(c4) and legal(c5) and legal(c6) and legal(c7))
    me = (bits_of(tc, 5) + bits_of(cat, 3) + bits_of(c0, 6) + bits_of(c1, 6) + bits_of(c2, 6) + bits_of(c3, 6)
          + bits_of(c4, 6) + bits_of(c5, 6) + bits_of(c6, 6) + bits_of(c7, 6))
    msg = hex_of_bits(head + me + parity, case)
    want = (adsb_spec.six_bit_char(c0) + adsb_spec.six_bit_char(c1) + adsb_spec.six_bit_char(c2)
            + adsb_spec.six_bit_char(c3) + adsb_spec.six_bit_char(c4) + adsb_spec.six_bit_char(c5)
            + adsb_spec.six_bit_char(c6) + adsb_spec.six_bit_char(c7))
    assert BDS08.callsign(msg) == want, "callsign returns the eight characters position by position ('_' for space)"
    assert BDS08.category(msg) == cat, "category == ME bits 6-8"


@harness("C10", inputs=dict(CODES, head=BinStr(32), parity=BinStr(24), case=BinStr(28)),
         functions=["pyModeS.decoder.bds.bds20.cs20"])
def cs20_roundtrip(c0, c1, c2, c3, c4, c5, c6, c7, head, parity, case):
    assume(legal(c0) and legal(c1) and legal(c2) and legal(c3) and legal(c4) and legal(c5) and legal(c6) and legal(c7))
    mb = ("00100000" + bits_of(c0, 6) + bits_of(c1, 6) + bits_of(c2, 6) + bits_of(c3, 6)
          + bits_of(c4, 6) + bits_of(c5, 6) + bits_of(c6, 6) + bits_of(c7, 6))
    msg = hex_of_bits(head + mb + parity, case)
    want = (adsb_spec.six_bit_char(c0) + adsb_spec.six_bit_char(c1) + adsb_spec.six_bit_char(c2)
            + adsb_spec.six_bit_char(c3) + adsb_spec.six_bit_char(c4) + adsb_spec.six_bit_char(c5)
            + adsb_spec.six_bit_char(c6) + adsb_spec.six_bit_char(c7))
    assert BDS20.cs20(msg) == want, "cs20 returns the eight characters position by position"


@harness(("C10", "C14"), inputs={"msg": HexStr(28)}, functions=["pyModeS.decoder.bds.bds08.callsign"],
         body_of=["pyModeS.decoder.bds.bds08.callsign"])
def callsign_body(msg):
    assert outcome(BDS08.callsign, msg) == outcome(adsb_spec.callsign, msg), \
        "callsign == table characters of ME bits 9-56 with '#' removed for TC1-4, RuntimeError otherwise"


@harness(("C10", "C14"), inputs={"msg": HexStr(28)}, functions=["pyModeS.decoder.bds.bds08.category"],
         body_of=["pyModeS.decoder.bds.bds08.category"])
def category_body(msg):
    assert outcome(BDS08.category, msg) == outcome(adsb_spec.category, msg), \
        "category == ME bits 6-8 for TC1-4, RuntimeError otherwise"


@harness(("C10", "C12", "C14"), inputs={"msg": HexStr(28)}, functions=["pyModeS.decoder.bds.bds20.cs20"],
         body_of=["pyModeS.decoder.bds.bds20.cs20"])
def cs20_body(msg):
    assert outcome(BDS20.cs20, msg) == outcome(adsb_spec.cs20, msg), "cs20 == table characters of MB bits 9-56"
