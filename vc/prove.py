"""Proving one harness case symbolically (runs inside a worker process)."""
import itertools
import json
import os
import sys
import time
import traceback
from fractions import Fraction

import z3

from . import api
from . import bits as B
from .values import *  # noqa
from .interp import Engine, PyExc, FuncValue
from .loader import Loader


def case_product(h, tier="thorough"):
    """enumerate the concrete cases of a harness: Choice values and length tuples"""
    keys, lists = [], []
    for k, d in h.inputs.items():
        if isinstance(d, api.Choice):
            keys.append(k)
            vals = d.quick if (tier == "quick" and d.quick is not None) else d.values
            lists.append([("choice", v) for v in vals])
        elif isinstance(d, (api.HexStr, api.BinStr)) and isinstance(d.n, tuple):
            keys.append(k)
            lists.append([("len", n) for n in d.n])
    if not keys:
        return [{}]
    return [dict(zip(keys, combo)) for combo in itertools.product(*lists)]


def _dec(x):
    """a Python float bound means its decimal literal (0.3 is 3/10), like float literals in the source"""
    if isinstance(x, float):
        return Fraction(repr(x))
    return Fraction(x)


def case_name(case):
    if not case:
        return ""
    return ",".join("%s=%s" % (k, v[1]) for k, v in sorted(case.items()))


def make_input(E, name, dom, case):
    """-> (symbolic value, decoder(model) -> json value)"""
    if name in case and case[name][0] == "choice":
        v = case[name][1]
        if isinstance(v, float):
            v = Fraction(repr(v))
        return v, (lambda m, v=case[name][1]: v)
    if isinstance(dom, api.BinStr):
        n = case[name][1] if name in case else dom.n
        bits_ = [B.newvar("%s_%d" % (name, i)) for i in range(n)]

        def dec(m, bits_=bits_):
            return "".join("1" if z3.is_true(m.eval(B.to_z3(b), model_completion=True)) else "0" for b in bits_)
        return (SBin(bits_) if n else ""), dec
    if isinstance(dom, api.HexStr):
        n = case[name][1] if name in case else dom.n
        bits_ = [B.newvar("%s_%d" % (name, i)) for i in range(4 * n)]
        if dom.case == "upper":
            ups = [True] * n
        elif dom.case == "lower":
            ups = [False] * n
        else:
            ups = [z3.Bool("%s_up%d" % (name, i)) for i in range(n)]

        def dec(m, bits_=bits_, ups=ups, n=n):
            out = []
            for i in range(n):
                v = 0
                for b in bits_[4 * i: 4 * i + 4]:
                    v = v * 2 + (1 if z3.is_true(m.eval(B.to_z3(b), model_completion=True)) else 0)
                u = ups[i]
                if not isinstance(u, bool):
                    u = z3.is_true(m.eval(u, model_completion=True))
                ch = "0123456789ABCDEF"[v]
                out.append(ch if u else ch.lower())
            return "".join(out)
        return (SHex(bits_, ups) if n else ""), dec
    if isinstance(dom, api.IntRange):
        t = z3.Int(name)
        E.ps.add(z3.And(t >= dom.lo, t <= dom.hi))

        def dec(m, t=t):
            return m.eval(t, model_completion=True).as_long()
        return SInt(t, None, dom.lo, dom.hi), dec
    if isinstance(dom, api.RealRange):
        t = z3.Real(name)
        lo, hi = _dec(dom.lo), _dec(dom.hi)
        E.real_boxes[name] = (lo, hi)
        E.ps.add(z3.And(t >= z3.Q(lo.numerator, lo.denominator), t <= z3.Q(hi.numerator, hi.denominator)))

        def dec(m, t=t):
            v = m.eval(t, model_completion=True)
            if z3.is_algebraic_value(v):
                v = v.approx(30)
            return {"frac": "%s/%s" % (v.numerator_as_long(), v.denominator_as_long())}
        return SReal(t), dec
    if isinstance(dom, api.RealVec):
        lo, hi = _dec(dom.lo), _dec(dom.hi)
        ts = [z3.Real("%s_%d" % (name, i)) for i in range(dom.n)]
        for t in ts:
            E.ps.add(z3.And(t >= z3.Q(lo.numerator, lo.denominator), t <= z3.Q(hi.numerator, hi.denominator)))

        def dec(m, ts=ts):
            out = []
            for t in ts:
                v = m.eval(t, model_completion=True)
                if z3.is_algebraic_value(v):
                    v = v.approx(30)
                out.append({"frac": "%s/%s" % (v.numerator_as_long(), v.denominator_as_long())})
            return out
        return E.new_heap(SList([SReal(t) for t in ts])), dec
    if isinstance(dom, api.Bool):
        t = z3.Bool(name)

        def dec(m, t=t):
            return z3.is_true(m.eval(t, model_completion=True))
        return SBool(t), dec
    raise ValueError("unknown domain for %s" % name)


def build_contracts(loader, h, extra_no=()):
    """qualname -> callable(E, fn, args, kwargs) substituting the spec function"""
    table = {}
    uses = h.uses
    allc = dict(api.CONTRACTS)
    allc.update(h.overrides)
    for qn, fn in allc.items():
        if qn in h.body_of or qn in extra_no:
            continue
        if qn.startswith("pyModeS.c_common.") and loader.common_impl != "c":
            continue        # contracts of the C twin only matter when pyModeS.common is bound to it
        if qn.startswith("pyModeS.py_common.") and loader.common_impl == "c" and qn not in h.overrides:
            continue
        if uses != "default" and qn not in uses and qn not in h.overrides:
            continue
        mod = loader.load(fn.__module__)
        spec_fv = mod.globals[fn.__name__]

        def sub(E, callee, args, kwargs, spec_fv=spec_fv, qn=qn):
            old = E.current_label
            E.current_label = (old + ">" if old else "") + "call:" + qn.split("pyModeS.")[-1]
            try:
                E.contract_uses[qn] = E.contract_uses.get(qn, 0) + 1
                return E.call_body(spec_fv, args, kwargs)
            finally:
                E.current_label = old
        table[qn] = sub
    return table


def prove_case(hid, case, timeout_ms, common_impl="py", exclude_regions=(), max_paths=4000):
    """symbolically execute harness `hid` for one concrete case.  Returns a JSON-able dict"""
    t0 = time.time()
    sys.setrecursionlimit(20000)
    stage = ["registry"]
    try:
        from . import native as _n  # registry loader (imports the contracts modules natively)
        hs = _n.load_all()
        h = hs[hid]
        stage[0] = "load"
        loader = Loader("c" if getattr(h, "config", "py") == "c" else common_impl)
        mod = loader.load(h.module)
        fv = mod.globals[h.name]
        if not isinstance(fv, FuncValue):
            raise RuntimeError("harness %s is not a function in the symbolic view" % hid)
        E = Engine(loader, timeout_ms=timeout_ms)
        E.contracts = build_contracts(loader, h)
        E.backend = h.backend
        E.uf_axioms = h.uf_axioms
        E.contract_uses = {}
        region_fvs = [mod.globals[r] for r in exclude_regions]

        def run_once():
            args = {}
            E.input_decoders = {}
            for name, dom in h.inputs.items():
                v, dec = make_input(E, name, dom, case)
                args[name] = v
                E.input_decoders[name] = dec
            for rf in region_fvs:
                inside = E.call_body(rf, [], dict(args))
                E.assume(c_not(E.truth(inside)))
            E.call_body(fv, [], args)
            # witness for the vacuity guard (first completed path only)
            if not getattr(E, "_witness", None) and E.check_results:
                if E.ps.s.check() == z3.sat:
                    E._witness = E.extract_inputs(E.ps.s.model())
            return None

        E._witness = None
        stage[0] = "explore"
        records = E.explore(run_once, max_paths=max_paths)
        # exceptions escaping the harness: obtain a model of that path
        out = {"harness": hid, "case": case_name(case), "paths": len(records), "stats": E.stats,
               "trusted": sorted(E.trusted), "contract_uses": E.contract_uses, "witness": E._witness,
               "files": sorted(loader.files_read)}
        checks = {}
        unsupported = []
        escaped = []
        for r in records:
            for c in r["checks"]:
                d = checks.setdefault(c["label"], {"proved": 0, "refuted": 0, "unknown": 0, "seconds": 0.0,
                                                   "backends": {}, "models": [], "details": []})
                if c.get("detail") is not None and len(d["details"]) < 3:
                    d["details"].append(c["detail"])
                st = c["status"]
                if st == "refuted" and c["label"].startswith("call:") and "/pre:" in c["label"]:
                    # a callee's contract is not applicable at this call site: the caller cannot be verified
                    # against it - undecided (bounded stand-in), not a refutation of the caller
                    st = "unknown"
                    if len(d["details"]) < 3:
                        d["details"].append("callee precondition not established; model %s" % json.dumps(c.get("model"))[:200])
                d[st] += 1
                c = dict(c, status=st)
                d["seconds"] += c["seconds"]
                d["backends"][c["backend"]] = d["backends"].get(c["backend"], 0) + 1
                if c["status"] == "refuted" and len(d["models"]) < 3:
                    d["models"].append(c["model"])
            if r["status"] == "unsupported":
                unsupported.append(r["detail"])
            elif r["status"] == "raise":
                escaped.append({"exc": r["exc"], "detail": r.get("detail"), "model": r.get("model")})
        out["checks"] = checks
        out["unsupported"] = unsupported[:5]
        out["n_unsupported"] = len(unsupported)
        out["escaped"] = escaped[:5]
        out["solver_seconds"] = round(sum(r.get("solver_time", 0) for r in records), 3)
        out["queries"] = sum(r.get("queries", 0) for r in records)
        out["wall"] = round(time.time() - t0, 3)
        return out
    except Exception as ex:
        if stage[0] == "load":
            # the repository text (or the harness) could not even be loaded into the VC generator, e.g. a
            # construct outside the subset at module level: everything in this case is undecided
            return {"harness": hid, "case": case_name(case), "paths": 0, "stats": {}, "trusted": [],
                    "contract_uses": {}, "witness": None, "files": [], "checks": {},
                    "unsupported": ["could not load into the VC generator: %s: %s" % (type(ex).__name__, str(ex)[:300])],
                    "n_unsupported": 1, "escaped": [], "solver_seconds": 0, "queries": 0,
                    "wall": round(time.time() - t0, 3)}
        return {"harness": hid, "case": case_name(case), "error": traceback.format_exc(),
                "wall": round(time.time() - t0, 3)}
