"""C04 - CPR decode with a reference position (airborne and surface)."""
from vc.api import (close, harness, contract, repo, outcome, assume, bits_of, hex_of_bits, BinStr, HexStr, IntRange,
                    RealRange, Choice, opaque, NATIVE_OPAQUE)
from spec import F
from spec import cpr_spec
from spec import nl_spec

B05 = repo("pyModeS.decoder.bds.bds05")
B06 = repo("pyModeS.decoder.bds.bds06")
ADSB = repo("pyModeS.decoder.adsb")
D5 = "pyModeS.decoder.bds.bds05."
D6 = "pyModeS.decoder.bds.bds06."


def position_frame(head, tc, mid, i, yz, xz, parity, case):
    """DF17/18 position frame: TC, 16 free bits (status/NIC/altitude or movement/track, time),
    CPR format bit, 17-bit latitude and longitude fields"""
    me = bits_of(tc, 5) + mid + bits_of(i, 1) + bits_of(yz, 17) + bits_of(xz, 17)
    return hex_of_bits(head + me + parity, case)


def sample_with_ref(rng, fixed):
    k, i, surface = fixed["k"], fixed["i"], fixed["surface"]
    d_lat = cpr_spec.dlat(i, surface)
    d_lon = cpr_spec.dlon(k, i, surface)
    edge = rng.random() < 0.3
    f = (lambda: rng.choice([-1, 1]) * (1 - rng.random() * 1e-3)) if edge else (lambda: rng.uniform(-1, 1))
    return {"lat": cpr_spec.sample_lat_in_band(rng, k), "lon": rng.choice([rng.uniform(-540, 540), -180.0, 0.0, 179.99999]),
            "dlat_ref": f() * (d_lat / 2 - d_lat / 131072), "dlon_ref": f() * (d_lon / 2 - d_lon / 131072),
            "dlat_ref2": f() * (d_lat / 2 - d_lat / 131072), "dlon_ref2": f() * (d_lon / 2 - d_lon / 131072)}


@harness("C04", sampler=sample_with_ref,
         inputs={"lat": RealRange(-90, 90), "lon": RealRange(-540, 540), "dlat_ref": RealRange(-4, 4),
                 "dlon_ref": RealRange(-200, 200), "dlat_ref2": RealRange(-4, 4), "dlon_ref2": RealRange(-200, 200),
                 "i": Choice(0, 1), "k": Choice(*range(1, 60), quick=[1, 2, 3, 4, 17, 30, 44, 57, 58, 59]),
                 "surface": Choice(False, True), "head": BinStr(32), "tc": IntRange(0, 31), "mid": BinStr(16),
                 "parity": BinStr(24), "case": BinStr(28)},
         functions=[D5 + "airborne_position_with_ref", D6 + "surface_position_with_ref"],
         body_of=[D5 + "airborne_position_with_ref", D6 + "surface_position_with_ref"], idealised=True,
         timeout={"quick": 60000, "thorough": 600000})
def position_with_ref_decode(lat, lon, dlat_ref, dlon_ref, dlat_ref2, dlon_ref2, i, k, surface, head, tc, mid, parity,
                             case):
    # transmit side: the DO-260B encoder applied to the true position (lat, lon)
    yz, rlat = cpr_spec.encode_lat(lat, i, surface)
    assume(nl_spec.NL(rlat) == k)
    xz, rlon = cpr_spec.encode_lon(lon, k, i, surface)
    d_lat = cpr_spec.dlat(i, surface)
    d_lon = cpr_spec.dlon(k, i, surface)
    # two references closer than half a zone, by one quantisation step (closed neighbourhood)
    assume(-(d_lat / 2 - d_lat / 131072) <= dlat_ref and dlat_ref <= d_lat / 2 - d_lat / 131072)
    assume(-(d_lon / 2 - d_lon / 131072) <= dlon_ref and dlon_ref <= d_lon / 2 - d_lon / 131072)
    assume(-(d_lat / 2 - d_lat / 131072) <= dlat_ref2 and dlat_ref2 <= d_lat / 2 - d_lat / 131072)
    assume(-(d_lon / 2 - d_lon / 131072) <= dlon_ref2 and dlon_ref2 <= d_lon / 2 - d_lon / 131072)
    msg = position_frame(head, tc, mid, i, yz, xz, parity, case)
    if surface:
        r = B06.surface_position_with_ref(msg, lat + dlat_ref, lon + dlon_ref)
        r2 = B06.surface_position_with_ref(msg, lat + dlat_ref2, lon + dlon_ref2)
    else:
        r = B05.airborne_position_with_ref(msg, lat + dlat_ref, lon + dlon_ref)
        r2 = B05.airborne_position_with_ref(msg, lat + dlat_ref2, lon + dlon_ref2)
    s_lat = cpr_spec.lat_step(i, surface)
    assert -s_lat <= r[0] - lat and r[0] - lat <= s_lat, \
        "latitude within one quantisation step of the encoded position, wherever the reference lies in the half-zone box"
    assert cpr_spec.within_mod360(r[1], lon, cpr_spec.lon_step(k, i, surface)), \
        "longitude within one quantisation step of the encoded position (modulo 360)"
    assert close(r2[0], r[0]) and close(r2[1], r[1]), \
        "the result does not change when the reference moves inside the half-zone neighbourhood"


@harness("C04", sampler=sample_with_ref,
         inputs={"lat": RealRange(-90, 90), "lon": RealRange(-540, 540), "dlat_ref": RealRange(-4, 4),
                 "dlon_ref": RealRange(-200, 200), "dlat_ref2": RealRange(-4, 4), "dlon_ref2": RealRange(-200, 200),
                 "i": Choice(0, 1), "k": Choice(*range(1, 60), quick=[1, 2, 30, 45, 59]),
                 "surface": Choice(False, True), "head": BinStr(32), "tc": IntRange(0, 31), "mid": BinStr(16),
                 "parity": BinStr(24), "case": BinStr(28)},
         functions=[D5 + "airborne_position_with_ref", D6 + "surface_position_with_ref"],
         body_of=[D5 + "airborne_position_with_ref", D6 + "surface_position_with_ref"], idealised=True,
         timeout={"quick": 60000, "thorough": 600000})
def with_ref_decoders_do_not_interfere(lat, lon, dlat_ref, dlon_ref, dlat_ref2, dlon_ref2, i, k, surface, head, tc, mid,
                                       parity, case):
    # frame condition (after seed C04-5, a zone-count cache shared by the airborne and the surface decoder and keyed
    # by parity, zone index and YZ only): a decode is still right after an earlier decode - by the *other* decoder,
    # of a frame with the same CPR bits, against a reference in the zone with the same index (latitude x4 or /4), and
    # by the same decoder against a second reference
    yz, rlat = cpr_spec.encode_lat(lat, i, surface)
    assume(nl_spec.NL(rlat) == k)
    xz, rlon = cpr_spec.encode_lon(lon, k, i, surface)
    d_lat = cpr_spec.dlat(i, surface)
    d_lon = cpr_spec.dlon(k, i, surface)
    assume(-(d_lat / 2 - d_lat / 131072) <= dlat_ref and dlat_ref <= d_lat / 2 - d_lat / 131072)
    assume(-(d_lon / 2 - d_lon / 131072) <= dlon_ref and dlon_ref <= d_lon / 2 - d_lon / 131072)
    assume(-(d_lat / 2 - d_lat / 131072) <= dlat_ref2 and dlat_ref2 <= d_lat / 2 - d_lat / 131072)
    assume(-(d_lon / 2 - d_lon / 131072) <= dlon_ref2 and dlon_ref2 <= d_lon / 2 - d_lon / 131072)
    msg = position_frame(head, tc, mid, i, yz, xz, parity, case)
    if surface:
        outcome(B05.airborne_position_with_ref, msg, (lat + dlat_ref2) * 4, lon + dlon_ref2)
        outcome(B06.surface_position_with_ref, msg, lat + dlat_ref2, lon + dlon_ref2)
        r = B06.surface_position_with_ref(msg, lat + dlat_ref, lon + dlon_ref)
    else:
        outcome(B06.surface_position_with_ref, msg, (lat + dlat_ref2) / 4, lon + dlon_ref2)
        outcome(B05.airborne_position_with_ref, msg, lat + dlat_ref2, lon + dlon_ref2)
        r = B05.airborne_position_with_ref(msg, lat + dlat_ref, lon + dlon_ref)
    s_lat = cpr_spec.lat_step(i, surface)
    assert -s_lat <= r[0] - lat and r[0] - lat <= s_lat, \
        "latitude within one quantisation step also after earlier decodes by the other and by the same decoder"
    assert cpr_spec.within_mod360(r[1], lon, cpr_spec.lon_step(k, i, surface)), \
        "longitude within one quantisation step (modulo 360) also after earlier decodes by the other and by the same decoder"


def ap_ref_opaque(msg, lat_ref, lon_ref):
    return opaque("bds05.airborne_position_with_ref", msg, lat_ref, lon_ref)


def sp_ref_opaque(msg, lat_ref, lon_ref):
    return opaque("bds06.surface_position_with_ref", msg, lat_ref, lon_ref)


def _n_apr(msg, lat_ref, lon_ref):
    return B05.airborne_position_with_ref(msg, lat_ref, lon_ref)


def _n_spr(msg, lat_ref, lon_ref):
    return B06.surface_position_with_ref(msg, lat_ref, lon_ref)


NATIVE_OPAQUE["bds05.airborne_position_with_ref"] = _n_apr
NATIVE_OPAQUE["bds06.surface_position_with_ref"] = _n_spr


@harness(("C04", "C14"), inputs={"msg": HexStr(28), "lat_ref": RealRange(-90, 90), "lon_ref": RealRange(-180, 180)},
         functions=["pyModeS.decoder.adsb.position_with_ref"], body_of=["pyModeS.decoder.adsb.position_with_ref"],
         idealised=True,
         overrides={D5 + "airborne_position_with_ref": ap_ref_opaque, D6 + "surface_position_with_ref": sp_ref_opaque})
def position_with_ref_dispatch(msg, lat_ref, lon_ref):
    tc = F.tc_of(F.hexbits(msg))
    o = outcome(ADSB.position_with_ref, msg, lat_ref, lon_ref)
    if tc is not None and 5 <= tc and tc <= 8:
        assert o == outcome(sp_ref_opaque, msg, lat_ref, lon_ref), "position_with_ref routes TC5-8 to the surface decoder"
    elif tc is not None and ((9 <= tc and tc <= 18) or (20 <= tc and tc <= 22)):
        assert o == outcome(ap_ref_opaque, msg, lat_ref, lon_ref), "position_with_ref routes TC9-18/20-22 to the airborne decoder"
    else:
        assert o == ("raise", "RuntimeError"), "position_with_ref rejects every other type code"
