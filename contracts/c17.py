"""C17 - live aircraft table: robust, correct positions, bounded staleness."""
from vc.api import (harness, contract, repo, outcome, assume, new_object, property_level, abstract_int, opaque,
                    bits_of, hex_of_bits, BinStr, HexStr, IntRange, RealRange, Choice, Domain, NATIVE_ABSTRACT,
                    NATIVE_OPAQUE)
from spec import F
from spec import crc_spec

DEC = repo("pyModeS.streamer.decode")
ADSB = repo("pyModeS.decoder.adsb")
D = "pyModeS.streamer.decode.Decode."

property_level("C17", "other", "robustness, staleness, Comm-B gating and case-insensitivity are discharged deductively for "
               "histories of up to three messages of arbitrary content (an induction step over one call from an "
               "arbitrary table is not attempted); the 0.001-degree accuracy clause over trajectories is only simulated "
               "(bounded)")

ADDR = {"A": "101010111100110111101111", "B": "000000010010001101000101"}     # ABCDEF, 012345


def adsb_frame(addr, me, parity, case):
    return hex_of_bits("10001" + "101" + ADDR[addr] + me + parity, case)


def commb_frame(addr, df21, head, mb, case):
    data = ("10101" if df21 else "10100") + head + mb
    ap = crc_spec.REM(data + "0" * 24) ^ int(ADDR[addr], 2)
    return hex_of_bits(data + bits_of(ap, 24), case)


def position_abstract(msg0, msg1, t0, t1, lat_ref=None, lon_ref=None):
    """what process_raw needs to know about adsb.position (proved in C03 / C05): it raises RuntimeError,
    returns None, or returns a (lat, lon) pair"""
    k = abstract_int("position_outcome", 0, 2, msg0, msg1, t0, t1)
    if k == 0:
        raise RuntimeError("inconsistent pair")
    if k == 1:
        return None
    return (opaque("position.lat", msg0, msg1, t0, t1), opaque("position.lon", msg0, msg1, t0, t1))


def position_with_ref_abstract(msg, lat_ref, lon_ref):
    return (opaque("position_with_ref.lat", msg, lat_ref, lon_ref), opaque("position_with_ref.lon", msg, lat_ref, lon_ref))


def _n_pos(msg0, msg1, t0, t1):
    try:
        r = ADSB.position(msg0, msg1, t0, t1)
    except RuntimeError:
        return 0
    return 1 if r is None else 2


NATIVE_ABSTRACT["position_outcome"] = _n_pos
NATIVE_OPAQUE["position.lat"] = lambda m0, m1, t0, t1: ADSB.position(m0, m1, t0, t1)[0]
NATIVE_OPAQUE["position.lon"] = lambda m0, m1, t0, t1: ADSB.position(m0, m1, t0, t1)[1]
NATIVE_OPAQUE["position_with_ref.lat"] = lambda m, a, b: ADSB.position_with_ref(m, a, b)[0]
NATIVE_OPAQUE["position_with_ref.lon"] = lambda m, a, b: ADSB.position_with_ref(m, a, b)[1]

from contracts.c14 import infer_abstract, callsign_opaque

OVR = {"pyModeS.decoder.adsb.position": position_abstract,
       "pyModeS.decoder.adsb.position_with_ref": position_with_ref_abstract,
       "pyModeS.decoder.bds.infer": infer_abstract,              # exact contract: C12
       "pyModeS.decoder.bds.bds08.callsign": callsign_opaque}    # exact contract: C10


def new_decoder():
    return new_object(DEC.Decode, acs={}, lat0=None, lon0=None, t=0, cache_timeout=60, dumpto=None)


TCQ = [0, 2, 6, 11, 19, 21, 28, 29, 31]

# MB fields (hex) that bds.infer classifies as the given class (None = random payload); classes 7 / 8
# (BDS44 / BDS45) are never reported with mrar=False: the abstract contract allows them, natively they
# cannot occur (native_optional)
MB_OF_CLASS = {1: ["00000000000000"], 2: ["10000000000000"], 3: ["02000000000000"], 4: ["20820820820820"],
               5: ["30000000000000"], 6: ["85E42F31300000"], 9: ["81951536E024D4", "FFB4351B6F3FFC"],
               10: ["8F39F91A7E27C4", "A00004128F39F9"]}


def sample_commb(rng, fixed):
    cls = fixed.get("cls", 0)
    mbs = MB_OF_CLASS.get(cls)
    if mbs:
        return {"mb": format(int(rng.choice(mbs), 16), "056b")}
    return {}


@harness("C17", inputs={"tc1": Choice(*range(32), quick=TCQ), "tc2": Choice(*range(32), quick=TCQ),
                         "r1": BinStr(51), "r2": BinStr(51), "p1": BinStr(24), "p2": BinStr(24), "case1": BinStr(28),
                         "case2": BinStr(28), "t1": RealRange(0, 100000), "d12": RealRange(0, 400),
                         "dnow": RealRange(0, 400), "a2": Choice("A", "B")},
         functions=[D + "process_raw", D + "get_aircraft"], body_of=[D + "process_raw", D + "get_aircraft"],
         overrides=OVR, idealised=True, timeout={"quick": 120000, "thorough": 600000})
def two_adsb_messages(tc1, tc2, r1, r2, p1, p2, case1, case2, t1, d12, dnow, a2):
    # two DF17 messages of every pair of type codes and arbitrary remaining content (same or different
    # aircraft), non-decreasing timestamps
    dec = new_decoder()
    m1 = adsb_frame("A", bits_of(tc1, 5) + r1, p1, case1)
    m2 = adsb_frame(a2, bits_of(tc2, 5) + r2, p2, case2)
    t2 = t1 + d12
    tnow = t2 + dnow
    o = outcome(dec.process_raw, [t1, t2], [m1, m2], [], [], tnow)
    assert o == ("ret", None), "process_raw never raises on DF17 messages of arbitrary content"
    acs = dec.get_aircraft()
    for k in acs:
        assert k == "ABCDEF" or k == "012345", "table keys are canonical upper-case addresses, whatever the input case"
    last_a = t2 if a2 == "A" else t1
    if tnow - last_a <= 59:
        assert "ABCDEF" in acs, "an aircraft heard within the last 59 s is listed"
    if tnow - last_a > 61:
        assert "ABCDEF" not in acs, "an aircraft silent for more than 61 s is absent"
    if a2 == "B":
        if dnow <= 59:
            assert "012345" in acs, "second aircraft listed when heard within 59 s"
        if dnow > 61:
            assert "012345" not in acs, "second aircraft absent after 61 s of silence"


@harness("C17", inputs={"tc1": Choice(*range(32), quick=[2, 11, 31]), "r1": BinStr(51), "p1": BinStr(24),
                         "case1": BinStr(28), "head": BinStr(27), "mb": BinStr(56), "case2": BinStr(28),
                         "df21": Choice(False, True), "cls": Choice(*range(12)), "t1": RealRange(0, 100000),
                         "d12": RealRange(0, 100), "known": Choice(True, False)},
         functions=[D + "process_raw"], body_of=[D + "process_raw", D + "get_aircraft"], overrides=OVR, idealised=True,
         timeout={"quick": 120000, "thorough": 600000}, sampler=sample_commb, native_optional=True)
def commb_attaches_only_to_known_aircraft(tc1, r1, p1, case1, head, mb, case2, df21, cls, t1, d12, known):
    dec = new_decoder()
    m1 = adsb_frame("A", bits_of(tc1, 5) + r1, p1, case1)
    cb = commb_frame("A" if known else "B", df21, head, mb, case2)
    # case split on what bds.infer reports for the reply (the 12 classes of its abstract contract)
    assume(abstract_int("infer_class", 0, 11, cb, False) == cls)
    t2 = t1 + d12
    o = outcome(dec.process_raw, [t1], [m1], [t2], [cb], t2)
    assert o == ("ret", None), "process_raw never raises on a Comm-B reply of arbitrary content"
    acs = dec.get_aircraft()
    assert "012345" not in acs, "a Comm-B reply never creates an aircraft record"
    if known and d12 <= 59:
        assert "ABCDEF" in acs and acs["ABCDEF"]["t"] == t2, \
            "a Comm-B reply of an aircraft already seen in ADS-B updates that record (in any letter case)"
    if not known and d12 <= 59:
        assert acs["ABCDEF"]["t"] == t1, "a Comm-B reply of an unknown address changes nothing"


class Seed(Domain):
    def sample(self, rng):
        return rng.randint(0, 10 ** 9)


def _airborne_msg(lat, lon, i, tc=11):
    from spec import cpr_spec
    yz, xz, rlat, rlon = cpr_spec.encode(lat, lon, i, False)
    me = bits_of(tc, 5) + "00" + "0" + "110000111000" + "0" + bits_of(i, 1) + bits_of(int(yz), 17) + bits_of(int(xz), 17)
    return adsb_frame("A", me, "0" * 24, "1" * 28)


@harness("C17", inputs={"seed": Seed(), "scenario": Choice("random", "nl_transition", "equator", "antimeridian", "gaps")},
         kind="bounded", functions=[D + "process_raw"],
         note="accuracy clause: simulated trajectories at up to 600 kt through NL transitions, the equator and the "
              "antimeridian, with message gaps below 10 s, 10-180 s and above 180 s; after every update the stored "
              "position is compared with the true position at the message that caused it (|lat| <= 87)")
def trajectory_positions_accurate(seed, scenario):
    import math
    import random
    from spec.nl_table import TRANSITION
    rng = random.Random(seed)
    if scenario == "nl_transition":
        k = rng.randint(3, 59)
        lat = float(TRANSITION[k]) * rng.choice([-1, 1]) + rng.uniform(-0.02, 0.02)
        lon = rng.uniform(-180, 180)
    elif scenario == "equator":
        lat, lon = rng.uniform(-0.02, 0.02), rng.uniform(-180, 180)
    elif scenario == "antimeridian":
        lat, lon = rng.uniform(-80, 80), rng.choice([-180, 180]) + rng.uniform(-0.02, 0.02)
    else:
        lat, lon = rng.uniform(-86, 86), rng.uniform(-180, 180)
    kt = rng.uniform(0, 600)
    hdg = rng.uniform(0, 2 * math.pi)
    dlat = kt / 3600.0 / 60.0 * math.cos(hdg)                  # degrees per second
    dlon = kt / 3600.0 / 60.0 * math.sin(hdg) / max(math.cos(math.radians(lat)), 0.05)
    dec = new_decoder()
    t = 1000.0
    i = 0
    for step in range(60):
        gap = rng.choice([0.5, 0.5, 0.5, 1.0, 4.0]) if scenario != "gaps" else rng.choice([0.5, 0.5, 9.0, 30.0, 150.0, 200.0])
        t += gap
        lat += dlat * gap
        lon += dlon * gap
        if abs(lat) > 86.9:
            break
        lon_n = (lon + 180) % 360 - 180
        i = 1 - i if rng.random() < 0.8 else i
        msg = _airborne_msg(lat, lon_n, i)
        dec.process_raw([t], [msg], [], [], t)
        rec = dec.get_aircraft().get("ABCDEF")
        assert rec is not None, "aircraft listed after its own message"
        if rec.get("tpos") == t:
            assert abs(rec["lat"] - lat) <= 0.001, "stored latitude within 0.001 degree of the true position"
            dl = (rec["lon"] - lon_n + 180) % 360 - 180
            assert abs(dl) <= 0.001 * max(1.0, 1 / max(math.cos(math.radians(lat)), 0.05)) * 3, \
                "stored longitude within a few quantisation steps of the true position"
