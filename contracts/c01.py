"""C01 - Mode S CRC-24: exact remainder, parity closure, error detection."""
from vc.api import (harness, contract, repo, outcome, assume, bits_of, hex_of_bits, new_object, BinStr, HexStr,
                    Choice, Bool)
from spec import common_spec as CS
from spec import crc_spec
from spec import F

PC = repo("pyModeS.py_common")
RTL = repo("pyModeS.extra.rtlreader")
P = "pyModeS.py_common."
CRC_USERS = ("C01", "C02", "C08", "C19")


@harness(CRC_USERS, inputs={"msg": HexStr((14, 28)), "encode": Choice(False, True)}, functions=[P + "crc"],
         body_of=[P + "crc"])
def crc_body(msg, encode):
    # all 2^56 + 2^112 frames, both modes: the 24 result bits of the real byte-wise loop nest
    # and of the textbook bit-serial division are compared as GF(2)-affine normal forms
    assert outcome(PC.crc, msg, encode) == outcome(CS.crc, msg, encode), \
        "crc(frame) == remainder of the frame polynomial modulo 0x1FFF409"


@harness("C01", inputs={"msg": HexStr((14, 28)), "other": HexStr((14, 28)), "first": Choice(False, True),
                         "second": Choice(False, True), "same": Choice(False, True)},
         functions=[P + "crc"], body_of=[P + "crc"])
def crc_is_a_function_of_its_arguments(msg, other, first, second, same):
    # frame condition: a call of crc leaves nothing behind (cache, shared buffer, module state) that changes a
    # later call - on the same frame text in either mode, or on another frame.  Added after seed C01-5, a cached
    # byte list that the encode path zeroed in place: every single call was right, the second one was not.
    PC.crc(msg if same else other, first)
    assert outcome(PC.crc, msg, second) == outcome(CS.crc, msg, second), \
        "crc(frame) == remainder also after an earlier call of crc (same or other frame, either mode)"


@harness("C01", inputs={"data": BinStr((32, 88)), "p1": BinStr(24), "p2": BinStr(24), "case1": BinStr((14, 28)),
                         "case2": BinStr((14, 28))})
def crc_encode_depends_on_data_only(data, p1, p2, case1, case2):
    assume(len(data) + 24 == 4 * len(case1) and len(case1) == len(case2))
    m1 = hex_of_bits(data + p1, case1)
    m2 = hex_of_bits(data + p2, case2)
    assert PC.crc(m1, True) == PC.crc(m2, True), "crc(encode=True) depends only on the data bits"


@harness("C01", inputs={"data": BinStr((32, 88)), "p": BinStr(24)})
def crc_parity_closure(data, p):
    c = PC.crc(hex_of_bits(data + p), True)
    assert 0 <= c and c < 16777216, "checksum fits 24 bits"
    m = hex_of_bits(data + bits_of(c, 24))
    assert PC.crc(m) == 0, "writing crc(encode=True) into the last 24 bits makes the checksum zero"


@harness("C01", inputs={"a": BinStr((56, 112)), "b": BinStr((56, 112))})
def rem_is_linear(a, b):
    assume(len(a) == len(b))
    x = bits_of(int(a, 2) ^ int(b, 2), len(a))
    assert crc_spec.REM(x) == crc_spec.REM(a) ^ crc_spec.REM(b), "REM(a xor b) == REM(a) xor REM(b)"


@harness("C01", inputs={"y": BinStr(24), "n": Choice(56, 112)})
def rem_of_short_polynomial(y, n):
    x = "0" * (n - 24) + y
    assert crc_spec.REM(x) == int(y, 2), "REM(y) == y for deg(y) < 24"


@harness("C01", inputs={}, kind="table",
         note="finite GF(2) computation on the 56 / 112 syndromes REM(x^i) of the spec and of the real crc")
def error_detection_table():
    # With crc == REM (crc_body) and linearity (rem_is_linear): crc(valid xor e) == REM(e).
    # So "no error pattern of weight 1..5, or burst of length <= 24, is undetected" is the
    # finite statement below about the syndromes S_i = REM(x^i).
    for n in (56, 112):
        S = []
        for i in range(n):
            e = "0" * i + "1" + "0" * (n - 1 - i)
            s = crc_spec.REM(e)
            assert PC.crc(hex_of_bits(e)) == s, "real crc on unit vectors equals the spec syndromes"
            S.append(s)
        singles = set(S)
        assert 0 not in singles and len(singles) == n, "weight 1 and 2: syndromes non-zero and pairwise distinct"
        pairs = {}
        for i in range(n):
            for j in range(i + 1, n):
                v = S[i] ^ S[j]
                assert v not in singles, "weight 3: no pair sums to a third syndrome"
                assert v not in pairs, "weight 4: pair sums pairwise distinct"
                pairs[v] = (i, j)
        for i in range(n):
            for j in range(i + 1, n):
                sij = S[i] ^ S[j]
                for k in range(j + 1, n):
                    v = sij ^ S[k]
                    q = pairs.get(v)
                    if q is not None:
                        assert q[0] in (i, j, k) or q[1] in (i, j, k), \
                            "weight 5: no triple sums to a disjoint pair"
        # bursts: every window of 24 consecutive syndromes is linearly independent
        for off in range(n - 23):
            basis = []
            for s in S[off:off + 24]:
                v = s
                for b in basis:
                    v = min(v, v ^ b)
                assert v != 0, "burst <= 24: window of 24 consecutive syndromes has GF(2) rank 24"
                basis.append(v)


@harness(("C01", "C19"), inputs={"msg": HexStr((14, 28), "upper")},
         functions=["pyModeS.extra.rtlreader.RtlReader._check_msg"],
         body_of=["pyModeS.extra.rtlreader.RtlReader._check_msg"])
def check_msg_body(msg):
    r = new_object(RTL.RtlReader)
    bits = F.hexbits(msg)
    d = F.df_of(bits)
    want = ((d == 17 and len(msg) == 28 and crc_spec.REM(bits) == 0)
            or ((d == 20 or d == 21) and len(msg) == 28)
            or ((d == 4 or d == 5 or d == 11) and len(msg) == 14))
    assert outcome(r._check_msg, msg) == ("ret", want), \
        "_check_msg accepts DF17 only with zero checksum, DF20/21 long, DF4/5/11 short"


@harness("C01", inputs={"msg": HexStr((14, 28)), "encode": Choice(False, True)}, kind="bounded",
         functions=[P + "crc_legacy"],
         note="crc_legacy uses numpy arrays / array2string: outside the executor's subset; observed-at only")
def crc_legacy_matches(msg, encode):
    assert PC.crc_legacy(msg, encode) == CS.crc(msg, encode), "crc_legacy == REM (bounded)"
