"""C12 - BDS register inference is total, format-sound and complete on plausible data."""
from vc.api import (harness, contract, repo, outcome, assume, ufun, bits_of, hex_of_bits, BinStr, HexStr, IntRange,
                    RealRange, Choice, NATIVE_UF)
from spec import F
from spec import bds_spec
from spec import commb_spec

BDS = repo("pyModeS.decoder.bds")
B10 = repo("pyModeS.decoder.bds.bds10")
B17 = repo("pyModeS.decoder.bds.bds17")
B20 = repo("pyModeS.decoder.bds.bds20")
B30 = repo("pyModeS.decoder.bds.bds30")
B40 = repo("pyModeS.decoder.bds.bds40")
B44 = repo("pyModeS.decoder.bds.bds44")
B45 = repo("pyModeS.decoder.bds.bds45")
B50 = repo("pyModeS.decoder.bds.bds50")
B60 = repo("pyModeS.decoder.bds.bds60")
AERO = repo("pyModeS.extra.aero")
D = "pyModeS.decoder.bds.bds"
MODS = {"is10": B10, "is17": B17, "is20": B20, "is30": B30, "is40": B40, "is44": B44, "is45": B45, "is50": B50,
        "is60": B60}
ISNAMES = ["is10", "is17", "is20", "is30", "is40", "is44", "is45", "is50", "is60"]

for _n in ISNAMES:
    contract(D + _n[2:] + "." + _n)(getattr(bds_spec, _n))


def mach2cas_abstract(Mach, H):
    """contract of aero.mach2cas as far as BDS inference needs it: some real function of (Mach, H)
    (its defining equations are C20's)"""
    return ufun("mach2cas", Mach, H)


def _native_mach2cas(m, h):
    return float(AERO.mach2cas(m, h))


NATIVE_UF["mach2cas"] = _native_mach2cas
contract("pyModeS.extra.aero.mach2cas")(mach2cas_abstract)


def cap17_only_bds20(msg):
    """projection of cap17's contract that is17 needs: 'BDS20' is listed iff MB bit 7 is set
    (GICB_REGISTERS[6] == '20' and no other entry is '20': checked by gicb_table_has_one_bds20)"""
    mb = commb_spec.mb_of(msg)
    return ["BDS20"] if F.bit(mb, 7) == 1 else []


@harness("C12", inputs={}, kind="table")
def gicb_table_has_one_bds20():
    assert commb_spec.GICB_REGISTERS.index("20") == 6 and commb_spec.GICB_REGISTERS.count("20") == 1


def region_roll_sign(msg, name):
    """F15: BDS 5,0 payload with roll status clear, roll sign bit set and roll magnitude zero"""
    if name != "is50":
        return False
    mb = F.me(F.hexbits(msg))
    return F.bit(mb, 1) == 0 and F.bit(mb, 2) == 1 and F.field(mb, 3, 11) == 0


@harness(("C12", "C14"), inputs={"msg": HexStr(28), "name": Choice(*ISNAMES)},
         functions=[D + n[2:] + "." + n for n in ISNAMES], body_of=[D + n[2:] + "." + n for n in ISNAMES],
         overrides={D + "17.cap17": cap17_only_bds20}, regions=["region_roll_sign"], idealised=True,
         note="is60 compares IAS with an uninterpreted MACH2CAS(mach, altitude)")
def isnn_body(msg, name):
    assert outcome(getattr(MODS[name], name), msg) == outcome(getattr(bds_spec, name), msg), \
        "isNN == status/reserved-bit format rules and plausibility envelope of the register (never raises)"


def sample_same_payload(rng, fixed):
    """native sampler for the frame-condition harness: for is60 a BDS 6,0 payload whose IAS matches its Mach number at
    the altitude in the frame's own header (so the verdict depends on the header), and another header for the earlier
    call; other registers: a plausible payload and a random other header"""
    oh = [rng.choice("01") for _ in range(27)]
    oh[20], oh[22] = "0", "1"
    other_head = "10100" + "".join(oh)
    if fixed.get("name") != "is60":
        return {"msg": sample_5060(rng, fixed)["msg"], "other_head": other_head}
    from spec import alt_spec
    while True:
        ac = "".join(rng.choice("01") for _ in range(6)) + "0" + rng.choice("01") + "1" + "".join(rng.choice("01") for _ in range(4))
        alt = alt_spec.alt13(ac)
        if alt is not None and 0 <= alt <= 45000:
            break
    mach = rng.uniform(0.3, 0.95)
    ias = _native_mach2cas(mach, alt * 0.3048) / 0.514444 + rng.uniform(-25, 25)
    n_ias = max(1, min(1023, int(round(ias))))
    n_mach = max(1, min(1023, int(round(mach / 0.004))))
    mb = "0" * 12 + "1" + bits_of(n_ias, 10) + "1" + bits_of(n_mach, 10) + "0" * 22
    head = "10100" + "".join(rng.choice("01") for _ in range(14)) + ac
    par = "".join(rng.choice("01") for _ in range(24))
    return {"msg": hex_of_bits(head + mb + par), "other_head": other_head}


def sample_same_payload_case(rng, fixed):
    st = fixed.get("st", 0)
    for _ in range(200):
        out = sample_same_payload(rng, fixed)
        mb = format(int(out["msg"], 16), "0112b")[32:88]
        if fixed.get("name") != "is60":
            mb = str((st >> 2) % 2) + mb[1:12] + str((st >> 1) % 2) + mb[13:23] + str(st % 2) + mb[24:]
            full = format(int(out["msg"], 16), "0112b")
            out["msg"] = hex_of_bits(full[:32] + mb + full[88:])
            return out
        if (int(mb[0]), int(mb[12]), int(mb[23])) == ((st >> 2) % 2, (st >> 1) % 2, st % 2):
            return out
    full = format(int(out["msg"], 16), "0112b")
    mb = str((st >> 2) % 2) + mb[1:12] + str((st >> 1) % 2) + mb[13:23] + str(st % 2) + mb[24:]
    out["msg"] = hex_of_bits(full[:32] + mb + full[88:])
    return out


@harness("C12", sampler=sample_same_payload_case,
         inputs={"msg": HexStr(28), "other_head": BinStr(32), "name": Choice("is60", "is40", "is20"),
                 "st": Choice(0, 1, 2, 3, 4, 5, 6, 7)},
         functions=[D + n[2:] + "." + n for n in ("is60", "is40", "is20")],
         body_of=[D + n[2:] + "." + n for n in ("is60", "is40", "is20")], idealised=True,
         note="frame condition, added after seed C12-5 (a verdict cache keyed by DF and MB payload, while is60 also "
              "depends on the altitude in the header): a register test is still right after an earlier call on a "
              "reply with the same MB payload and parity under any other header.  Stated for is60 (the one register "
              "test that reads the header: altitude of a DF20 reply), is40 and is20; the others are left to their "
              "per-call obligation (is50's F15 region would need a second known-finding entry)")
def isnn_is_a_function_of_the_message(msg, other_head, name, st):
    bits = F.hexbits(msg)
    # exhaustive case split on three status bits of the payload (shared by both calls): it only spreads the paths of
    # the two executions over parallel cases
    mb = F.me(bits)
    assume(F.bit(mb, 1) == (st >> 2) % 2 and F.bit(mb, 13) == (st >> 1) % 2 and F.bit(mb, 24) == st % 2)
    # the earlier reply: DF20 with a 25-ft (M = 0, Q = 1) altitude code, all other header bits free - keeps the
    # number of paths of the first execution small (the Gillham branch of the altitude decoder is not entered)
    assume(other_head[0:5] == "10100" and other_head[25] == "0" and other_head[27] == "1")
    other = hex_of_bits(other_head + bits[32:112])
    f = getattr(MODS[name], name)
    outcome(f, other)
    assert outcome(f, msg) == outcome(getattr(bds_spec, name), msg), \
        "isNN == its format rules and envelope also after an earlier call on the same payload under another header"


def sample_infer(rng, fixed):
    """native sampler for the infer_body cases: payloads built to satisfy the case's register predicates with
    useful probability (status-gated fields cleared or given small values), first MB byte as the case asks"""
    first = fixed.get("first", 0)
    if fixed.get("b50") or fixed.get("b60") or fixed.get("b40"):
        msg = sample_5060(rng, fixed)["msg"]
        bits = list(format(int(msg, 16), "0112b"))
        if fixed.get("b40") and not (fixed.get("b50") or fixed.get("b60")):
            for k in range(32, 88):
                bits[k] = "0"
            bits[32] = "1"                      # MCP altitude status with a small value
            bits[40] = rng.choice("01")
    else:
        bits = [rng.choice("01") for _ in range(112)]
        bits[0:5] = list(rng.choice(["10100", "10101"]))
    byte = {1: "00010000", 2: "00100000", 3: "00110000"}.get(first)
    if byte:
        bits[32:40] = list(byte)
    return {"msg": hex_of_bits("".join(bits))}


@harness(("C12", "C14"), sampler=sample_infer, native_optional=True,
         inputs={"msg": HexStr(28), "mrar": Choice(False, True), "first": Choice(0, 1, 2, 3),
                                 "b50": Choice(False, True), "b60": Choice(False, True), "b40": Choice(False, True)},
         functions=["pyModeS.decoder.bds.infer"], body_of=["pyModeS.decoder.bds.infer"], idealised=True)
def infer_body(msg, mrar, first, b50, b60, b40):
    # case split (exhaustive: every frame falls in exactly one case) on the first MB byte - 0x10 / 0x20 / 0x30 /
    # anything else, the registers with a fixed BDS code byte are mutually exclusive - and on the BDS 5,0 / 6,0
    # predicates; it only keeps the number of mask combinations per verification condition small
    byte = F.field(F.hexbits(msg), 33, 40)
    assume((byte == 16) if first == 1 else ((byte == 32) if first == 2 else ((byte == 48) if first == 3 else
                                                                          (byte != 16 and byte != 32 and byte != 48))))
    assume(bds_spec.is50(msg) == b50)
    assume(bds_spec.is60(msg) == b60)
    assume(bds_spec.is40(msg) == b40)
    assert outcome(BDS.infer, msg, mrar) == outcome(bds_spec.infer, msg, mrar), \
        "infer == EMPTY / register of the type code / sorted comma-joined set of matching registers / None"


def _native_is50or60(msg, spd_ref, trk_ref, alt_ref):
    """reference for is50or60 (native only): None unless both; 'BDS50' when the BDS 6,0 reading is
    aerodynamically inconsistent; otherwise the reading whose velocity vector is closest to the
    reference (both when the needed fields are missing)"""
    import math
    if not (bds_spec.is50(msg) and bds_spec.is60(msg)):
        return None
    h60 = commb_spec.field_decoder("hdg60", msg)
    m60 = commb_spec.field_decoder("mach60", msg)
    i60 = commb_spec.field_decoder("ias60", msg)
    if m60 is not None and i60 is not None:
        if abs(i60 - float(AERO.mach2cas(float(m60), alt_ref * 0.3048)) / 0.514444) > 20:
            return "BDS50"
    if h60 is None or (m60 is None and i60 is None):
        return "BDS50,BDS60"
    h50 = commb_spec.field_decoder("trk50", msg)
    v50 = commb_spec.field_decoder("gs50", msg)
    if h50 is None or v50 is None:
        return "BDS50,BDS60"

    def vxy(v, ang):
        return v * math.sin(math.radians(ang)), v * math.cos(math.radians(ang))
    cands = [("BDS50", vxy(float(v50) * 0.514444, float(h50)))]
    if m60 is not None:
        cands.append(("BDS60", vxy(float(AERO.mach2tas(float(m60), alt_ref * 0.3048)), float(h60))))
    if i60 is not None:
        cands.append(("BDS60", vxy(float(AERO.cas2tas(float(i60) * 0.514444, alt_ref * 0.3048)), float(h60))))
    mu = vxy(spd_ref * 0.514444, trk_ref)
    best = min(cands, key=lambda c: math.hypot(c[1][0] - mu[0], c[1][1] - mu[1]))
    return best[0]


def sample_5060(rng, fixed):
    # payloads that satisfy both format rules reasonably often: clear most status bits
    bits = [rng.choice("01") for _ in range(56)]
    for sb, lo, hi in ((1, 2, 12), (13, 14, 23), (24, 25, 34), (35, 36, 45), (46, 47, 56)):
        if rng.random() < 0.55:
            for k in range(sb, hi + 1):
                bits[k - 1] = "0"
        else:
            bits[sb - 1] = "1"
            for k in range(lo, lo + 3):
                bits[k - 1] = "0"
    head = "10100" + "".join(rng.choice("01") for _ in range(27))
    par = "".join(rng.choice("01") for _ in range(24))
    return {"msg": hex_of_bits(head + "".join(bits) + par)}


@harness("C12", inputs={"msg": HexStr(28), "spd": RealRange(0, 600), "trk": RealRange(0, 360), "alt": RealRange(0, 45000)},
         kind="bounded", functions=["pyModeS.decoder.bds.is50or60"], sampler=sample_5060,
         note="is50or60 goes through numpy arrays with NaN, np.linalg.norm and np.nanargmin: outside the executor's "
              "subset; compared natively with a scalar reference on sampled payloads (labelled bounded)")
def is50or60_bounded(msg, spd, trk, alt):
    assert BDS.is50or60(msg, spd, trk, alt) == _native_is50or60(msg, spd, trk, alt), \
        "is50or60 == None unless both; else the interpretation closest to the reference (bounded)"
