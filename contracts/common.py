"""Contracts of pyModeS.py_common (the module the pinned environment runs) and the proof
harnesses that check each function *body* against its contract.  At every call site in a
caller the callee is replaced by the spec function registered here."""
from vc.api import (harness, contract, repo, outcome, assume, BinStr, HexStr, IntRange, RealRange,
                    Bool, Choice)
from spec import common_spec as CS
from spec import F

PC = repo("pyModeS.py_common")
P = "pyModeS.py_common."

contract(P + "hex2bin")(CS.hex2bin)
contract(P + "hex2int")(CS.hex2int)
contract(P + "bin2int")(CS.bin2int)
contract(P + "df")(CS.df)
contract(P + "typecode")(CS.typecode)
contract(P + "crc")(CS.crc)
contract(P + "floor")(CS.floor)
contract(P + "icao")(CS.icao)
contract(P + "data")(CS.data)
contract(P + "allzeros")(CS.allzeros)
contract(P + "wrongstatus")(CS.wrongstatus)
contract(P + "altitude")(CS.altitude)
contract(P + "altcode")(CS.altcode)
contract(P + "gray2int")(CS.gray2int)
contract(P + "gray2alt")(CS.gray2alt)
contract(P + "squawk")(CS.squawk)
contract(P + "idcode")(CS.idcode)

ALLP = ("C01", "C02", "C03", "C04", "C05", "C07", "C08", "C09", "C10", "C11", "C12", "C13", "C14", "C17")


@harness(ALLP, inputs={"msg": HexStr((2, 14, 28))}, functions=[P + "hex2bin"], body_of=[P + "hex2bin"])
def hex2bin_body(msg):
    assert outcome(PC.hex2bin, msg) == outcome(CS.hex2bin, msg), "hex2bin == big-endian bits"


@harness(ALLP, inputs={"b": BinStr((1, 5, 13, 17, 56))}, functions=[P + "bin2int"], body_of=[P + "bin2int"])
def bin2int_body(b):
    assert outcome(PC.bin2int, b) == outcome(CS.bin2int, b), "bin2int == unsigned value"


@harness(ALLP, inputs={"msg": HexStr((14, 28))}, functions=[P + "df"], body_of=[P + "df"])
def df_body(msg):
    assert outcome(PC.df, msg) == outcome(CS.df, msg), "df == min(bits 1-5, 24)"


@harness(ALLP, inputs={"msg": HexStr((14, 28))}, functions=[P + "typecode"], body_of=[P + "typecode"])
def typecode_body(msg):
    assert outcome(PC.typecode, msg) == outcome(CS.typecode, msg), "typecode == ME bits 1-5 for DF17/18"


@harness(ALLP, inputs={"msg": HexStr((14, 28))}, functions=[P + "data"], body_of=[P + "data"])
def data_body(msg):
    assert outcome(PC.data, msg) == outcome(CS.data, msg), "data == hex digits 9..n-6"


@harness(("C11", "C12", "C14"), inputs={"msg": HexStr(28)}, functions=[P + "allzeros"], body_of=[P + "allzeros"])
def allzeros_body(msg):
    assert outcome(PC.allzeros, msg) == outcome(CS.allzeros, msg), "allzeros == (MB field == 0)"


WS_TRIPLES = CS.WS_TRIPLES


@harness(("C11", "C12"), inputs={"d": BinStr(56), "t": Choice(*range(len(WS_TRIPLES)))},
         functions=[P + "wrongstatus"], body_of=[P + "wrongstatus"])
def wrongstatus_body(d, t):
    sb, msb, lsb = WS_TRIPLES[t]
    assert outcome(PC.wrongstatus, d, sb, msb, lsb) == outcome(CS.wrongstatus, d, sb, msb, lsb), \
        "wrongstatus == status clear and field non-zero"


@harness(("C03", "C04", "C05", "C06"), inputs={"x": RealRange(-100000, 100000)}, functions=[P + "floor"],
         body_of=[P + "floor"], idealised=True)
def floor_body(x):
    r = PC.floor(x)
    assert r <= x and x < r + 1, "floor(x) <= x < floor(x)+1"
