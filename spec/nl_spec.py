"""DO-260B A.1.7.2 d: NL(lat), the number of longitude zones at latitude lat.
NL = 59 at the equator, the largest k in 2..59 with |lat| < transition(k) in between
(transition(k) = (180/pi) acos(sqrt((1-cos(pi/30))/(1-cos(2 pi/k))))), 2 for |lat| up to and
including 87, 1 beyond 87.  The transition latitudes are 40-digit rationals (nl_table.py), so
this NL equals the ideal one except within 1e-38 degree of a transition."""
from spec.nl_table import TRANSITION
from vc.api import exact


def NL(lat):
    lat = exact(lat)
    a = lat if lat >= 0 else -lat
    n = 1
    if a <= 87:
        n = 2
    for k in range(3, 60):
        if a < TRANSITION[k]:
            n = k
    return n


def NL_low(lat, delta):
    """smallest value NL takes on [|lat|, |lat|+delta]"""
    a = lat if lat >= 0 else -lat
    return NL(a + delta)


def NL_high(lat, delta):
    """largest value NL takes on [max(|lat|-delta, 0), |lat|]"""
    a = lat if lat >= 0 else -lat
    b = a - delta
    return NL(b if b >= 0 else 0)
