"""C09 - ADS-B velocity: airborne (TC19) and surface movement (TC5-8)."""
from vc.api import (harness, contract, repo, outcome, outcome_close, assume, bits_of, hex_of_bits, BinStr, HexStr,
                    IntRange, Choice)
from spec import F
from spec import adsb_spec

B09 = repo("pyModeS.decoder.bds.bds09")
B06 = repo("pyModeS.decoder.bds.bds06")
ADSB = repo("pyModeS.decoder.adsb")
D = "pyModeS.decoder.bds."
A = "pyModeS.decoder.adsb."

contract(D + "bds09.altitude_diff")(adsb_spec.altitude_diff)
contract(D + "bds06.surface_velocity")(adsb_spec.surface_velocity)


def region_airspeed_early_none(head, st, mid, s1, f1, s2, f2, tail, parity, case, source):
    """F3: TC19 subtype 3/4 with heading field 0 or airspeed field 0"""
    return (st == 3 or st == 4) and (f1 == 0 or f2 == 0)


@harness(("C09", "C14"),
         inputs={"head": BinStr(32), "st": Choice(1, 2, 3, 4), "mid": BinStr(5), "s1": Choice(0, 1), "f1": IntRange(0, 1023),
                 "s2": Choice(0, 1), "f2": IntRange(0, 1023), "tail": BinStr(21), "parity": BinStr(24), "case": BinStr(28),
                 "source": Choice(False, True)},
         functions=[D + "bds09.airborne_velocity"], body_of=[D + "bds09.airborne_velocity"], idealised=True,
         regions=["region_airspeed_early_none"],
         note="every TC19 frame of subtype 1-4 is head || 10011 sss mid s1 f1 s2 f2 tail || parity; the case split on "
              "subtype and the two sign bits makes the velocity arithmetic polynomial; sqrt / atan2 are "
              "uninterpreted real functions, so a refutation may not replay (idealised)")
def airborne_velocity_body(head, st, mid, s1, f1, s2, f2, tail, parity, case, source):
    d = F.df_of(head)
    assume(d == 17 or d == 18)
    me = "10011" + bits_of(st, 3) + mid + bits_of(s1, 1) + bits_of(f1, 10) + bits_of(s2, 1) + bits_of(f2, 10) + tail
    msg = hex_of_bits(head + me + parity, case)
    assert outcome_close(outcome(B09.airborne_velocity, msg, source), outcome(adsb_spec.airborne_velocity, msg, source)), \
        "airborne_velocity == DO-260B TC19 quantities for subtypes 1-4"


@harness(("C09", "C14"), inputs={"msg": HexStr(28), "source": Choice(False, True)},
         functions=[D + "bds09.airborne_velocity"], body_of=[D + "bds09.airborne_velocity"])
def airborne_velocity_rejects(msg, source):
    assume(F.tc_of(F.hexbits(msg)) != 19)
    assert outcome(B09.airborne_velocity, msg, source) == ("raise", "RuntimeError"), \
        "airborne_velocity raises RuntimeError for every type code other than 19"


@harness(("C09", "C14"), inputs={"msg": HexStr(28)}, functions=[D + "bds09.altitude_diff"],
         body_of=[D + "bds09.altitude_diff"])
def altitude_diff_body(msg):
    bits = F.hexbits(msg)
    if F.tc_of(bits) == 19:
        assume(F.field(F.me(bits), 50, 56) != 127)      # 127 = 'beyond range': either reading allowed
    assert outcome(B09.altitude_diff, msg) == outcome(adsb_spec.altitude_diff, msg), \
        "altitude_diff == +-(N-1)*25 ft, None for N=0; RuntimeError for other type codes"


@harness(("C09", "C14"), inputs={"msg": HexStr(28), "source": Choice(False, True)},
         functions=[D + "bds06.surface_velocity"], body_of=[D + "bds06.surface_velocity"])
def surface_velocity_body(msg, source):
    assert outcome_close(outcome(B06.surface_velocity, msg, source), outcome(adsb_spec.surface_velocity, msg, source)), \
        "surface_velocity == movement table (all 128 codes), track N*360/128 iff status; RuntimeError outside TC5-8"


@harness(("C09", "C14"), inputs={"msg": HexStr(28), "source": Choice(False, True)},
         functions=[A + "velocity"], body_of=[A + "velocity"],
         overrides={D + "bds09.airborne_velocity": adsb_spec.airborne_velocity_opaque,
                    D + "bds06.surface_velocity": adsb_spec.surface_velocity_opaque})
def velocity_dispatch(msg, source):
    tc = F.tc_of(F.hexbits(msg))
    o = outcome(ADSB.velocity, msg, source)
    if tc is not None and 5 <= tc and tc <= 8:
        assert o == outcome(adsb_spec.surface_velocity_opaque, msg, source), "velocity routes TC5-8 to surface_velocity"
    elif tc == 19:
        assert o == outcome(adsb_spec.airborne_velocity_opaque, msg, source), "velocity routes TC19 to airborne_velocity"
    else:
        assert o == ("raise", "RuntimeError"), "velocity rejects every other type code"


@harness(("C09", "C14"), inputs={"msg": HexStr(28)}, functions=[A + "speed_heading"], body_of=[A + "speed_heading"])
def speed_heading_body(msg):
    # speed_heading is velocity() cut to (speed, angle): same outcome class, None when velocity() has none
    ov = outcome(ADSB.velocity, msg)
    o = outcome(ADSB.speed_heading, msg)
    if ov[0] == "raise":
        assert o == ov, "speed_heading rejects what velocity rejects"
    elif ov[1] is None:
        assert o == ("ret", None), "speed_heading is None when no velocity is available"
    else:
        assert o[0] == "ret" and o[1][0] == ov[1][0] and o[1][1] == ov[1][1], "speed_heading == first two components of velocity"


@harness("C09", inputs={}, kind="table",
         note="discharges the floating-point step of the ground-speed clause that the real-arithmetic proof of "
              "airborne_velocity_body leaves open: sqrt is uninterpreted there, so int(math.sqrt(v)) must be the "
              "integer square root for every reachable v.  Exhaustive over all |component| 0..1022 (x4 supersonic).")
def binary64_sqrt_floor_is_isqrt_on_every_reachable_speed():
    import math
    n = 0
    for scale in (1, 4):
        for a in range(0, 1023):
            aa = (a * scale) * (a * scale)
            for b in range(a, 1023):
                v = aa + (b * scale) * (b * scale)
                assert int(math.sqrt(v)) == math.isqrt(v), "int(math.sqrt(v)) == floor(sqrt(v)) for v = %d" % v
                n += 1
    assert n == 2 * 1023 * 1024 // 2, "all component pairs visited"
