"""BDS register inference (property C12): format rules (status / reserved bits, Doc 9871) and
plausibility envelopes of each register as single boolean expressions over the MB field.

isNN(msg) == FORMAT_nn(mb) and ENVELOPE_nn(mb)  - so soundness (isNN => FORMAT) and completeness
(FORMAT and ENVELOPE => isNN) are both consequences of the exact contract.  A status bit that is
clear requires *every* bit of its field, including the sign bit, to be zero."""
from vc.api import require, ufun
from spec import F
from spec import commb_spec
from spec import adsb_spec
from spec import alt_spec

KTS = 0.514444
FT = 0.3048


def ok(mb, status, first, last):
    """status-consistency of one field: status clear => all field bits first..last are zero"""
    return F.bit(mb, status) == 1 or F.field(mb, first, last) == 0


def mb_and_nonzero(msg):
    require(len(msg) == 28, "112-bit frame")
    mb = F.me(F.hexbits(msg))
    return mb, F.field(mb, 1, 56) != 0


def is10(msg):
    mb, nz = mb_and_nonzero(msg)
    ovc = F.bit(mb, 15)
    sub = F.field(mb, 17, 23)
    return (nz and F.field(mb, 1, 8) == 16 and F.field(mb, 10, 14) == 0
            and (not (ovc == 1 and sub < 5)) and (not (ovc == 0 and sub > 4)))


def is17(msg):
    mb, nz = mb_and_nonzero(msg)
    return nz and F.field(mb, 25, 56) == 0 and F.bit(mb, 7) == 1      # bit 7: BDS 2,0 supported


def is20(msg):
    mb, nz = mb_and_nonzero(msg)
    legal = "#" not in adsb_spec.ident_chars(mb[8:56])
    return nz and F.field(mb, 1, 8) == 32 and (F.field(mb, 9, 56) == 0 or legal)


def is30(msg):
    mb, nz = mb_and_nonzero(msg)
    return nz and F.field(mb, 1, 8) == 48 and F.field(mb, 29, 30) != 3 and F.field(mb, 16, 22) < 48


def is40(msg):
    mb, nz = mb_and_nonzero(msg)
    return (nz and ok(mb, 1, 2, 13) and ok(mb, 14, 15, 26) and ok(mb, 27, 28, 39) and ok(mb, 48, 49, 51)
            and ok(mb, 54, 55, 56) and F.field(mb, 40, 47) == 0 and F.field(mb, 52, 53) == 0)


def is44(msg):
    mb, nz = mb_and_nonzero(msg)
    wind = F.field(mb, 6, 14)
    t = commb_spec.raw_value(mb, 24, 25, 34)
    t1 = t * 0.25
    t2 = t * 0.125
    tmin = t1 if t1 <= t2 else t2
    tmax = t1 if t1 >= t2 else t2
    return (nz and ok(mb, 5, 6, 23) and ok(mb, 35, 36, 46) and ok(mb, 47, 48, 49) and ok(mb, 50, 51, 56)
            and F.field(mb, 1, 4) <= 4 and (F.bit(mb, 5) == 0 or wind <= 250)
            and (not (tmin > 60 or tmax < -80)))


def is45(msg):
    mb, nz = mb_and_nonzero(msg)
    t = commb_spec.raw_value(mb, 17, 18, 26) * 0.25
    return (nz and ok(mb, 1, 2, 3) and ok(mb, 4, 5, 6) and ok(mb, 7, 8, 9) and ok(mb, 10, 11, 12)
            and ok(mb, 13, 14, 15) and ok(mb, 16, 17, 26) and ok(mb, 27, 28, 38) and ok(mb, 39, 40, 51)
            and F.field(mb, 52, 56) == 0 and (not (t > 60 or t < -80)))


def absval(x):
    return x if x >= 0 else -x


def is50(msg):
    mb, nz = mb_and_nonzero(msg)
    roll = commb_spec.raw_value(mb, 2, 3, 11) * 45 / 256
    gs = F.field(mb, 25, 34) * 2
    tas = F.field(mb, 47, 56) * 2
    has_roll = F.bit(mb, 1) == 1
    has_gs = F.bit(mb, 24) == 1
    has_tas = F.bit(mb, 46) == 1
    return (nz and ok(mb, 1, 2, 11) and ok(mb, 12, 13, 23) and ok(mb, 24, 25, 34) and ok(mb, 35, 36, 45)
            and ok(mb, 46, 47, 56)
            and (not (has_roll and absval(roll) > 50))
            and (not (has_gs and gs > 600)) and (not (has_tas and tas > 600))
            and (not (has_gs and has_tas and absval(tas - gs) > 200)))


def is60(msg):
    mb, nz = mb_and_nonzero(msg)
    bits = F.hexbits(msg)
    ias = F.field(mb, 14, 23)
    mach = F.field(mb, 25, 34) * 4 / 1000
    vrb = commb_spec.raw_value(mb, 36, 37, 45) * 32
    vri = commb_spec.raw_value(mb, 47, 48, 56) * 32
    has_ias = F.bit(mb, 13) == 1
    has_mach = F.bit(mb, 24) == 1
    fmt = (nz and ok(mb, 1, 2, 12) and ok(mb, 13, 14, 23) and ok(mb, 24, 25, 34) and ok(mb, 35, 36, 45)
           and ok(mb, 46, 47, 56)
           and (not (has_ias and ias > 500)) and (not (has_mach and mach > 1))
           and (not (F.bit(mb, 35) == 1 and absval(vrb) > 6000))
           and (not (F.bit(mb, 46) == 1 and absval(vri) > 6000)))
    # Mach / IAS consistency at the altitude carried by a DF20 reply
    alt = alt_spec.alt13(bits[19:32])
    consistent = True
    if has_ias and has_mach and F.df_of(bits) == 20 and alt is not None:
        cas = ufun("mach2cas", mach, alt * FT) / KTS
        consistent = absval(ias - cas) <= 20
    return fmt and consistent


REG_ORDER = ["BDS10", "BDS17", "BDS20", "BDS30", "BDS40", "BDS44", "BDS45", "BDS50", "BDS60"]


def infer(msg, mrar=False):
    require(len(msg) == 28, "112-bit frame")
    bits = F.hexbits(msg)
    mb = F.me(bits)
    if F.field(mb, 1, 56) == 0:
        return "EMPTY"
    if F.df_of(bits) == 17:
        tc = F.field(bits, 33, 37)
        if 1 <= tc and tc <= 4:
            return "BDS08"
        if 5 <= tc and tc <= 8:
            return "BDS06"
        if 9 <= tc and tc <= 18:
            return "BDS05"
        if tc == 19:
            return "BDS09"
        if 20 <= tc and tc <= 22:
            return "BDS05"
        if tc == 28:
            return "BDS61"
        if tc == 29:
            return "BDS62"
        if tc == 31:
            return "BDS65"
    flags = [is10(msg), is17(msg), is20(msg), is30(msg), is40(msg), is44(msg), is45(msg), is50(msg), is60(msg)]
    out = ""
    for i in range(9):
        if (i == 5 or i == 6) and not mrar:
            continue
        if flags[i]:
            out = out + ("," if out != "" else "") + REG_ORDER[i]
    return None if out == "" else out
