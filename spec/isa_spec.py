"""ICAO standard atmosphere (Doc 7488/3), two layers, and great-circle helpers - textbook forms,
written independently of extra/aero.py."""
from vc.api import ufun, pi_const

G0 = 9.80665
R = 287.05287
T0 = 288.15
P0 = 101325
LAPSE = -0.0065
H_TROP = 11000
T_TROP = 216.65


def temperature(h):
    return T0 + LAPSE * h if h <= H_TROP else T_TROP


def pressure(h):
    if h <= H_TROP:
        return P0 * ufun("pow", temperature(h) / T0, -G0 / (LAPSE * R))
    p11 = P0 * ufun("pow", T_TROP / T0, -G0 / (LAPSE * R))
    return p11 * ufun("exp", -G0 * (h - H_TROP) / (R * T_TROP))


def density(h):
    return pressure(h) / (R * temperature(h))
