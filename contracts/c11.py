"""C11 - Comm-B register fields decode to the encoded engineering values."""
from vc.api import (harness, contract, repo, outcome, outcome_close, assume, bits_of, hex_of_bits, BinStr,
                    HexStr, IntRange, Choice)
from spec import F
from spec import commb_spec

B10 = repo("pyModeS.decoder.bds.bds10")
B17 = repo("pyModeS.decoder.bds.bds17")
B40 = repo("pyModeS.decoder.bds.bds40")
B44 = repo("pyModeS.decoder.bds.bds44")
B45 = repo("pyModeS.decoder.bds.bds45")
B50 = repo("pyModeS.decoder.bds.bds50")
B53 = repo("pyModeS.decoder.bds.bds53")
B60 = repo("pyModeS.decoder.bds.bds60")
COMMB = repo("pyModeS.decoder.commb")
MODS = {"10": B10, "17": B17, "40": B40, "44": B44, "45": B45, "50": B50, "53": B53, "60": B60}
D = "pyModeS.decoder.bds.bds"

SCALAR = sorted(commb_spec.FIELDS)


# functional contracts used by the callers (isNN, is50or60, tell, Decode.process_raw)
def _c_selalt40mcp(msg): return commb_spec.field_decoder("selalt40mcp", msg)
def _c_selalt40fms(msg): return commb_spec.field_decoder("selalt40fms", msg)
def _c_p40baro(msg): return commb_spec.field_decoder("p40baro", msg)
def _c_roll50(msg): return commb_spec.field_decoder("roll50", msg)
def _c_trk50(msg): return commb_spec.field_decoder("trk50", msg)
def _c_gs50(msg): return commb_spec.field_decoder("gs50", msg)
def _c_rtrk50(msg): return commb_spec.field_decoder("rtrk50", msg)
def _c_tas50(msg): return commb_spec.field_decoder("tas50", msg)
def _c_hdg60(msg): return commb_spec.field_decoder("hdg60", msg)
def _c_ias60(msg): return commb_spec.field_decoder("ias60", msg)
def _c_mach60(msg): return commb_spec.field_decoder("mach60", msg)
def _c_vr60baro(msg): return commb_spec.field_decoder("vr60baro", msg)
def _c_vr60ins(msg): return commb_spec.field_decoder("vr60ins", msg)
def _c_hdg53(msg): return commb_spec.field_decoder("hdg53", msg)
def _c_ias53(msg): return commb_spec.field_decoder("ias53", msg)
def _c_mach53(msg): return commb_spec.field_decoder("mach53", msg)
def _c_tas53(msg): return commb_spec.field_decoder("tas53", msg)
def _c_p44(msg): return commb_spec.field_decoder("p44", msg)
def _c_turb44(msg): return commb_spec.field_decoder("turb44", msg)
def _c_hum44(msg): return commb_spec.field_decoder("hum44", msg)
def _c_turb45(msg): return commb_spec.field_decoder("turb45", msg)
def _c_ws45(msg): return commb_spec.field_decoder("ws45", msg)
def _c_mb45(msg): return commb_spec.field_decoder("mb45", msg)
def _c_ic45(msg): return commb_spec.field_decoder("ic45", msg)
def _c_wv45(msg): return commb_spec.field_decoder("wv45", msg)
def _c_temp45(msg): return commb_spec.field_decoder("temp45", msg)
def _c_p45(msg): return commb_spec.field_decoder("p45", msg)
def _c_rh45(msg): return commb_spec.field_decoder("rh45", msg)


contract(D + "40.selalt40mcp")(_c_selalt40mcp)
contract(D + "40.selalt40fms")(_c_selalt40fms)
contract(D + "40.p40baro")(_c_p40baro)
contract(D + "50.roll50")(_c_roll50)
contract(D + "50.trk50")(_c_trk50)
contract(D + "50.gs50")(_c_gs50)
contract(D + "50.rtrk50")(_c_rtrk50)
contract(D + "50.tas50")(_c_tas50)
contract(D + "60.hdg60")(_c_hdg60)
contract(D + "60.ias60")(_c_ias60)
contract(D + "60.mach60")(_c_mach60)
contract(D + "60.vr60baro")(_c_vr60baro)
contract(D + "60.vr60ins")(_c_vr60ins)
contract(D + "53.hdg53")(_c_hdg53)
contract(D + "53.ias53")(_c_ias53)
contract(D + "53.mach53")(_c_mach53)
contract(D + "53.tas53")(_c_tas53)
contract(D + "44.p44")(_c_p44)
contract(D + "44.turb44")(_c_turb44)
contract(D + "44.hum44")(_c_hum44)
contract(D + "44.wind44")(commb_spec.wind44)
contract(D + "44.temp44")(commb_spec.temp44)
contract(D + "45.turb45")(_c_turb45)
contract(D + "45.ws45")(_c_ws45)
contract(D + "45.mb45")(_c_mb45)
contract(D + "45.ic45")(_c_ic45)
contract(D + "45.wv45")(_c_wv45)
contract(D + "45.temp45")(_c_temp45)
contract(D + "45.p45")(_c_p45)
contract(D + "45.rh45")(_c_rh45)
contract(D + "10.ovc10")(commb_spec.ovc10)
contract(D + "17.cap17")(commb_spec.cap17)

ALL_DECODERS = [D + commb_spec.REGISTER_OF[n] + "." + n for n in sorted(commb_spec.REGISTER_OF) if n != "cs20"]


def region_vr53_all_ones(msg, name):
    """known-finding region F14: BDS 5,3 vertical rate with status set and the 8 magnitude bits
    all ones, or all zeros with the sign bit set (the code returns 0 for both)"""
    if name != "vr53":
        return False
    mb = commb_spec.mb_of(msg)
    raw = F.field(mb, 49, 56)
    return F.bit(mb, 47) == 1 and (raw == 255 or (raw == 0 and F.bit(mb, 48) == 1))


@harness(("C11", "C12", "C14"), inputs={"msg": HexStr(28), "name": Choice(*SCALAR)}, functions=ALL_DECODERS,
         body_of=ALL_DECODERS, regions=["region_vr53_all_ones"])
def field_decoder_body(msg, name):
    f = getattr(MODS[commb_spec.REGISTER_OF[name]], name)
    assert outcome_close(outcome(f, msg), outcome(commb_spec.field_decoder, name, msg)), \
        "decoder == status-gated (two's-complement | unsigned) field x LSB + offset, per Doc 9871"


@harness(("C11", "C12", "C14"), inputs={"msg": HexStr(28)}, functions=[D + "44.wind44"], body_of=[D + "44.wind44"])
def wind44_body(msg):
    assert outcome_close(outcome(B44.wind44, msg), outcome(commb_spec.wind44, msg)), \
        "wind44 == (speed bits 6-14, direction bits 15-23 x 180/256), (None, None) iff status bit 5 clear"


@harness(("C11", "C12", "C14"), inputs={"msg": HexStr(28)}, functions=[D + "44.temp44"], body_of=[D + "44.temp44"])
def temp44_body(msg):
    assert outcome_close(outcome(B44.temp44, msg), outcome(commb_spec.temp44, msg)), \
        "temp44 == two's-complement (sign 24, bits 25-34) x 0.25 (and x 0.125), unconditionally"


@harness(("C11", "C14"), inputs={"msg": HexStr(28)}, functions=[D + "10.ovc10"], body_of=[D + "10.ovc10"])
def ovc10_body(msg):
    assert outcome(B10.ovc10, msg) == outcome(commb_spec.ovc10, msg), "ovc10 == MB bit 15"


@harness(("C11", "C12", "C14"), inputs={"msg": HexStr(28)}, functions=[D + "17.cap17"], kind="bounded",
         note="the result list has one element per set capability bit: 2^24 list shapes, i.e. 2^24 paths in a "
              "path-forking executor without loop invariants over comprehensions; random frames plus every "
              "pattern with at most two capability bits set (sampled) are checked natively instead")
def cap17_bounded(msg):
    assert outcome(B17.cap17, msg) == outcome(commb_spec.cap17, msg), "cap17 == registers of the set bits 1-24 (bounded)"


@harness("C11", inputs={"i": IntRange(0, 23), "j": IntRange(0, 23), "rest": BinStr(32), "head": BinStr(32),
                         "parity": BinStr(24)}, functions=[D + "17.cap17"], body_of=[D + "17.cap17"])
def cap17_two_bits(i, j, rest, head, parity):
    # deductive part: every capability pattern with exactly the bits i <= j set, all other frame bits free
    assume(i <= j)
    caps = 0
    caps = caps | (1 << (23 - i))
    caps = caps | (1 << (23 - j))
    msg = hex_of_bits(head + bits_of(caps, 24) + rest + parity)
    want = ["BDS" + commb_spec.GICB_REGISTERS[i]]
    if j != i:
        want = want + ["BDS" + commb_spec.GICB_REGISTERS[j]]
    assert B17.cap17(msg) == want, "cap17 lists exactly the registers of the set bits, in bit order"


@harness("C11", inputs={}, kind="table", functions=["pyModeS.decoder.commb"])
def commb_reexports_are_the_decoders():
    names = list(COMMB.__all__)
    assert len(names) == 40, "40 exported decoders"
    mods = [B10, B17, repo("pyModeS.decoder.bds.bds20"), repo("pyModeS.decoder.bds.bds30"), B40, B44, B45, B50, B60]
    for n in names:
        owners = [m for m in mods if n in vars(m._load()) and getattr(getattr(m, n), "__module__", None) == m._load().__name__]
        assert len(owners) == 1, "exactly one register module defines " + n
        assert getattr(COMMB, n) is getattr(owners[0], n), "commb.%s is the register module's %s" % (n, n)


@harness(("C11", "C14"), inputs={"msg": HexStr(28), "name": Choice("alt40mcp", "alt40fms")},
         functions=[D + "40.alt40mcp", D + "40.alt40fms"], body_of=[D + "40.alt40mcp", D + "40.alt40fms"])
def deprecated_alias_body(msg, name):
    # the two deprecated names still exported by pyModeS.commb must decode the same field as their successors
    target = "selalt40mcp" if name == "alt40mcp" else "selalt40fms"
    assert outcome(getattr(B40, name), msg) == outcome(commb_spec.field_decoder, target, msg), \
        "alt40mcp / alt40fms decode the MCP / FMS selected altitude like selalt40mcp / selalt40fms"
