"""C03 - airborne CPR global decode recovers the encoded position."""
from vc.api import (close, harness, contract, repo, outcome, assume, bits_of, hex_of_bits, BinStr, HexStr, IntRange,
                    RealRange, Choice, Bool, opaque, NATIVE_OPAQUE)
from spec import F
from spec import cpr_spec
from spec import nl_spec
from spec import common_spec as CS

B05 = repo("pyModeS.decoder.bds.bds05")
ADSB = repo("pyModeS.decoder.adsb")
D = "pyModeS.decoder.bds.bds05."

contract("pyModeS.py_common.cprNL")(nl_spec.NL)

# 1 NM of longitude expressed in degrees is at most LONSLACK[k]/60 in NL band k (k >= 2):
# 1.02 / cos(transition(k) + 0.02 deg), rounded up (see DESIGN C03); band 1 is unconstrained
PAIR_NM = 1.7


def lon_slack(k):
    """rational upper bound of 1/cos(lat) over NL band k widened by 0.02 degree"""
    if k == 1:
        return 10800          # 180 degrees: no constraint at all
    return COSINV[k]


COSINV = {2: 19.7, 3: 17.0, 4: 13.9, 5: 11.8, 6: 10.3, 7: 9.13, 8: 8.21, 9: 7.47, 10: 6.86, 11: 6.35, 12: 5.91,
          13: 5.53, 14: 5.21, 15: 4.92, 16: 4.66, 17: 4.44, 18: 4.23, 19: 4.05, 20: 3.88, 21: 3.73, 22: 3.59,
          23: 3.46, 24: 3.34, 25: 3.23, 26: 3.13, 27: 3.04, 28: 2.95, 29: 2.87, 30: 2.79, 31: 2.72, 32: 2.65,
          33: 2.59, 34: 2.53, 35: 2.47, 36: 2.42, 37: 2.37, 38: 2.32, 39: 2.27, 40: 2.23, 41: 2.19, 42: 2.15,
          43: 2.11, 44: 2.08, 45: 2.04, 46: 2.01, 47: 1.98, 48: 1.95, 49: 1.92, 50: 1.90, 51: 1.87, 52: 1.85,
          53: 1.82, 54: 1.80, 55: 1.78, 56: 1.76, 57: 1.74, 58: 1.72, 59: 1.70}


def airborne_frame(head, tc, ss, nicsb, alt, tbit, i, yz, xz, parity, case):
    me = (bits_of(tc, 5) + ss + nicsb + alt + tbit + bits_of(i, 1) + bits_of(yz, 17) + bits_of(xz, 17))
    return hex_of_bits(head + me + parity, case)


def sample_pair(rng, fixed, surface=False):
    """native sampler: a pair of positions whose encoded latitudes lie in bands k and k+dk"""
    from spec.nl_table import TRANSITION
    k, dk, newest = fixed["k"], fixed["dk"], fixed["newest"]
    maxd = 0.0116 if surface else 0.05
    if dk == 0 or not (1 <= k + dk <= 59):
        lat = cpr_spec.sample_lat_in_band(rng, k)
        dlat = rng.uniform(-1, 1) * maxd * rng.choice([1, 0.1, 0.001, 0])
    else:
        edge = float(TRANSITION[k]) if dk == -1 else float(TRANSITION[k + 1])
        off = rng.random() * maxd * rng.choice([1, 0.1, 0.01])
        a = edge + off * dk * 0.5            # inside band k
        d = -dk * rng.uniform(off * 0.5, maxd)   # crosses the edge
        sgn = rng.choice([-1, 1])
        lat, dlat = sgn * a, sgn * d
    kn = k if newest == 0 else k + dk
    kn = min(max(kn, 1), 59)
    if surface:
        dlon = rng.uniform(-1, 1) * lon_reach_native(kn) / 225
    else:
        dlon = rng.uniform(-1, 1) * (PAIR_NM * lon_slack(kn) / 60 if kn > 1 else 180)
    t1, t2 = sorted([rng.uniform(0, 2e9), rng.uniform(0, 2e9)])
    if t1 == t2:
        t2 = t1 + 1
    out = {"lat_e": lat, "dlat": dlat, "lon_e": rng.choice([rng.uniform(-180, 180), -180.0, 179.9999, 0.0]),
           "dlon": dlon, "t_e": t2 if newest == 0 else t1, "t_o": t1 if newest == 0 else t2}
    return out


def lon_reach_native(k):
    if k == 1:
        return 44
    v = 0.75 * COSINV[k]
    return v if v < 44 else 44


@harness("C03", sampler=sample_pair,
         inputs={"lat_e": RealRange(-90, 90), "lon_e": RealRange(-180, 180), "dlat": RealRange(-1, 1),
                 "dlon": RealRange(-181, 181), "k": Choice(*range(1, 60), quick=[1, 2, 3, 4, 17, 30, 44, 57, 58, 59]), "dk": Choice(-1, 0, 1),
                 "newest": Choice(0, 1), "swap": Choice(False, True),
                 "t_e": RealRange(0, 4000000000), "t_o": RealRange(0, 4000000000),
                 "head_e": BinStr(32), "head_o": BinStr(32), "tc_e": IntRange(0, 31), "tc_o": IntRange(0, 31),
                 "mid_e": BinStr(16), "mid_o": BinStr(16), "par_e": BinStr(24), "par_o": BinStr(24),
                 "case_e": BinStr(28), "case_o": BinStr(28)},
         functions=[D + "airborne_position"], body_of=[D + "airborne_position"], idealised=True,
         timeout={"quick": 60000, "thorough": 600000})
def airborne_global_decode(lat_e, lon_e, dlat, dlon, k, dk, newest, swap, t_e, t_o, head_e, head_o, tc_e, tc_o,
                           mid_e, mid_o, par_e, par_o, case_e, case_o):
    # two positions at most 3 NM apart in latitude and PAIR_NM = 1.7 NM in longitude (the statement needs 1 NM; 1.7 NM
    # is what C17's kinematic clause needs: 600 kt for the 10 s within which process_raw pairs two frames)
    k_o = k + dk
    assume(1 <= k_o and k_o <= 59)
    lat_o = lat_e + dlat
    lon_o = lon_e + dlon
    assume(-90 <= lat_o and lat_o <= 90)
    assume(-0.05 <= dlat and dlat <= 0.05)                     # 3 NM = 0.05 degree of latitude
    kn = k if newest == 0 else k_o
    assume(-PAIR_NM * lon_slack(kn) / 60 <= dlon and dlon <= PAIR_NM * lon_slack(kn) / 60)
    assume((t_e > t_o) if newest == 0 else (t_o > t_e))
    # transmit side: DO-260B encoder
    yz_e, rlat_e = cpr_spec.encode_lat(lat_e, 0, False)
    yz_o, rlat_o = cpr_spec.encode_lat(lat_o, 1, False)
    assume(nl_spec.NL(rlat_e) == k)
    assume(nl_spec.NL(rlat_o) == k_o)
    xz_e, rlon_e = cpr_spec.encode_lon(lon_e, k, 0, False)
    xz_o, rlon_o = cpr_spec.encode_lon(lon_o, k_o, 1, False)
    msg_e = airborne_frame(head_e, tc_e, mid_e[0:2], mid_e[2:3], mid_e[3:15], mid_e[15:16], 0, yz_e, xz_e, par_e, case_e)
    msg_o = airborne_frame(head_o, tc_o, mid_o[0:2], mid_o[2:3], mid_o[3:15], mid_o[15:16], 1, yz_o, xz_o, par_o, case_o)
    if swap:
        r = B05.airborne_position(msg_o, msg_e, t_o, t_e)
    else:
        r = B05.airborne_position(msg_e, msg_o, t_e, t_o)
    if dk != 0:
        assert r is None, "None when the two frames' latitudes lie in different NL bands"
    else:
        assert r is not None, "a position is returned when both frames lie in the same NL band"
        # the position carried by the frame with the later timestamp, and one quantisation step of its parity
        i_n = 0 if newest == 0 else 1
        lat_n = lat_e if newest == 0 else lat_o
        lon_n = lon_e if newest == 0 else lon_o
        s_lat = cpr_spec.lat_step(i_n, False)
        assert -s_lat <= r[0] - lat_n and r[0] - lat_n <= s_lat, \
            "latitude within one quantisation step of the position carried by the newer frame"
        assert cpr_spec.within_mod360(r[1], lon_n, cpr_spec.lon_step(k, i_n, False)), \
            "longitude within one quantisation step of the position carried by the newer frame (modulo 360)"


@harness(("C03", "C05"), inputs={"lat_e": RealRange(-90, 90), "dlat": RealRange(-0.05, 0.05), "surface": Choice(False, True)},
         idealised=True)
def nl_bands_of_a_close_pair_are_adjacent(lat_e, dlat, surface):
    # completeness of the case split dk in {-1, 0, 1}
    lat_o = lat_e + dlat
    assume(-90 <= lat_o and lat_o <= 90)
    yz_e, rlat_e = cpr_spec.encode_lat(lat_e, 0, surface)
    yz_o, rlat_o = cpr_spec.encode_lat(lat_o, 1, surface)
    d = nl_spec.NL(rlat_e) - nl_spec.NL(rlat_o)
    assert -1 <= d and d <= 1, "two frames at most 3 NM apart in latitude lie in the same or adjacent NL bands"


@harness(("C03", "C04", "C05"), inputs={"lat": RealRange(-90, 90), "lon": RealRange(-360, 360), "i": Choice(0, 1),
                                         "surface": Choice(False, True), "k": Choice(1, 2, 30, 59)}, idealised=True)
def encoder_quantisation(lat, lon, i, surface, k):
    yz, rlat = cpr_spec.encode_lat(lat, i, surface)
    d = cpr_spec.dlat(i, surface)
    assert 0 <= yz and yz < 131072, "YZ fits 17 bits"
    assert rlat - lat <= d / 262144 and lat - rlat <= d / 262144, "|Rlat - lat| <= half a quantisation step"
    xz, rlon = cpr_spec.encode_lon(lon, k, i, surface)
    dl = cpr_spec.dlon(k, i, surface)
    assert 0 <= xz and xz < 131072, "XZ fits 17 bits"
    assert rlon - lon <= dl / 262144 and lon - rlon <= dl / 262144, "|Rlon - lon| <= half a quantisation step"


def airborne_position_opaque(msg0, msg1, t0, t1):
    return opaque("bds05.airborne_position", msg0, msg1, t0, t1)


def surface_position_opaque(msg0, msg1, t0, t1, lat_ref, lon_ref):
    return opaque("bds06.surface_position", msg0, msg1, t0, t1, lat_ref, lon_ref)


def _n_ap(msg0, msg1, t0, t1):
    return B05.airborne_position(msg0, msg1, t0, t1)


def _n_sp(msg0, msg1, t0, t1, lat_ref, lon_ref):
    return repo("pyModeS.decoder.bds.bds06").surface_position(msg0, msg1, t0, t1, lat_ref, lon_ref)


NATIVE_OPAQUE["bds05.airborne_position"] = _n_ap
NATIVE_OPAQUE["bds06.surface_position"] = _n_sp


@harness(("C03", "C05", "C14"),
         inputs={"msg0": HexStr(28), "msg1": HexStr(28), "t0": RealRange(0, 4000000000), "t1": RealRange(0, 4000000000),
                 "has_ref": Choice(False, True), "lat_ref": RealRange(-90, 90), "lon_ref": RealRange(-180, 180)},
         functions=["pyModeS.decoder.adsb.position"], body_of=["pyModeS.decoder.adsb.position"], idealised=True,
         overrides={D + "airborne_position": airborne_position_opaque,
                    "pyModeS.decoder.bds.bds06.surface_position": surface_position_opaque})
def position_dispatch(msg0, msg1, t0, t1, has_ref, lat_ref, lon_ref):
    tc0 = F.tc_of(F.hexbits(msg0))
    tc1 = F.tc_of(F.hexbits(msg1))
    if has_ref:
        o = outcome(ADSB.position, msg0, msg1, t0, t1, lat_ref, lon_ref)
    else:
        o = outcome(ADSB.position, msg0, msg1, t0, t1)
    both = tc0 is not None and tc1 is not None
    if both and 5 <= tc0 and tc0 <= 8 and 5 <= tc1 and tc1 <= 8:
        if has_ref:
            assert o == outcome(surface_position_opaque, msg0, msg1, t0, t1, lat_ref, lon_ref), \
                "position routes a TC5-8 pair to surface_position"
        else:
            assert o == ("raise", "RuntimeError"), "position refuses a surface pair without a receiver location"
    elif both and ((9 <= tc0 and tc0 <= 18 and 9 <= tc1 and tc1 <= 18) or (20 <= tc0 and tc0 <= 22 and 20 <= tc1 and tc1 <= 22)):
        assert o == outcome(airborne_position_opaque, msg0, msg1, t0, t1), \
            "position routes a TC9-18 pair and a TC20-22 pair to airborne_position"
    else:
        assert o == ("raise", "RuntimeError"), "position rejects every other combination of type codes"


@harness("C03", inputs={"m0": HexStr(28), "m1": HexStr(28), "t0": RealRange(0, 4000000000), "t1": RealRange(0, 4000000000)},
         functions=[D + "airborne_position"], body_of=[D + "airborne_position"], idealised=True)
def airborne_same_parity_rejected(m0, m1, t0, t1):
    # last clause of the statement: two frames of the same CPR parity (ME bit 22), whatever else they contain
    b0 = F.hexbits(m0)
    b1 = F.hexbits(m1)
    assume(b0[53] == b1[53])
    assert outcome(B05.airborne_position, m0, m1, t0, t1) == ("raise", "RuntimeError"), \
        "two frames of the same parity are rejected with RuntimeError"
