"""C15 - the Cython common module is observationally equivalent to the Python one.

No equivalence query between two programs: each function of c_common.pyx (mechanically translated to
Python on every run, vc/pyx2py.py) is proved against the *same* functional contract as its py_common twin,
modulo the documented sentinels (-1 for 'no type code', -999999 / -1 for 'no altitude'); hence the two are
equal on the common domain.  The sentinel-aware callers are then re-verified with pyModeS.common bound to
the C module."""
from vc.api import (harness, contract, repo, outcome, outcome_close, assume, close, require, hexdigit_value, is_symbolic,
                    BinStr,
                    HexStr, IntRange,
                    RealRange, Choice)
from spec import common_spec as CS
from spec import nl_spec
from spec import F

CC = repo("pyModeS.c_common")
C = "pyModeS.c_common."


def char_to_int_spec(c):
    # a code that is the character of a hex string: its digit value (lemma c_char_to_int_on_hex_digits)
    h = hexdigit_value(c) if not isinstance(c, str) else None
    if h is not None:
        return h
    v = 0
    if 48 <= c and c <= 57:
        v = c - 48
    if 97 <= c and c <= 102:
        v = c - 87
    if 65 <= c and c <= 70:
        v = c - 55
    return v


def int_to_char_spec(i):
    return 48 + i if i < 10 else 87 + i


def gray2alt_c(binstr):
    a = CS.gray2alt(binstr)
    return -1 if a is None else a


def altcode_c(msg):
    from vc.api import require
    require(len(msg) == 14 or len(msg) == 28, "altcode: 56- or 112-bit frame")
    bits = F.hexbits(msg)
    d = F.df_of(bits)
    if not (d == 0 or d == 4 or d == 16 or d == 20):
        raise RuntimeError("DF 0, 4, 16 or 20 expected")
    return CS.altitude_c(bits[19:32])


contract(C + "char_to_int")(char_to_int_spec)
contract(C + "int_to_char")(int_to_char_spec)
contract(C + "hex2bin")(CS.hex2bin)
contract(C + "hex2int")(CS.hex2int)
def bin2int_c(binstr):
    """c bin2int on its actual domain: '0' / '1' characters, and NUL bytes (which crc(encode=True) writes
    into the parity field) counting as 0"""
    if len(binstr) == 0:
        return 0
    v = 0
    for ch in binstr:
        require(ch == "0" or ch == "1" or ch == "\x00", "bin2int: binary digits (or NUL)")
        v = v * 2 + (1 if ch == "1" else 0)
    return v


contract(C + "bin2int")(bin2int_c)
contract(C + "df")(CS.df)
contract(C + "typecode")(CS.typecode_c)
contract(C + "crc")(CS.crc)
contract(C + "floor")(CS.floor)
contract(C + "icao")(CS.icao)
contract(C + "data")(CS.data)
contract(C + "allzeros")(CS.allzeros)
contract(C + "wrongstatus")(CS.wrongstatus)
contract(C + "altitude")(CS.altitude_c)
contract(C + "altcode")(altcode_c)
contract(C + "gray2int")(CS.gray2int)
contract(C + "gray2alt")(gray2alt_c)
contract(C + "squawk")(CS.squawk)
contract(C + "idcode")(CS.idcode)
contract(C + "cprNL")(nl_spec.NL)


@harness("C15", inputs={"c": IntRange(0, 255)}, functions=[C + "char_to_int"], body_of=[C + "char_to_int"], config="c")
def c_char_to_int_body(c):
    assert CC.char_to_int(c) == char_to_int_spec(c), "char_to_int == hex digit value (0 for other bytes)"


@harness("C15", inputs={"h": HexStr(1)}, functions=[C + "char_to_int"], body_of=[C + "char_to_int"], config="c")
def c_char_to_int_on_hex_digits(h):
    # lemma behind hexdigit_value(): on the code of any hex digit, in either letter case, the real
    # char_to_int returns the digit's value
    code = ord(h)
    assert CC.char_to_int(code) == int(h, 16), "char_to_int(code of a hex digit) == its value"


@harness("C15", inputs={"i": IntRange(0, 15)}, functions=[C + "int_to_char"], body_of=[C + "int_to_char"], config="c")
def c_int_to_char_body(i):
    assert CC.int_to_char(i) == int_to_char_spec(i), "int_to_char == ASCII code of the lower-case hex digit"


@harness("C15", inputs={"msg": HexStr((2, 14, 28))}, functions=[C + "hex2bin"], body_of=[C + "hex2bin"], config="c")
def c_hex2bin_body(msg):
    got = CC.hex2bin(msg)
    want = CS.hex2bin(msg)
    assert len(got) == len(want), "c hex2bin returns 4 binary digits per hex digit"
    for i in range(len(msg)):
        # (one obligation per hex digit: the digits are decoded independently)
        assert got[4 * i:4 * i + 4] == want[4 * i:4 * i + 4], "c hex2bin == big-endian bits (same contract as py)"


@harness("C15", inputs={"b": BinStr((1, 5, 13, 17, 56))}, functions=[C + "bin2int"], body_of=[C + "bin2int"], config="c")
def c_bin2int_body(b):
    assert outcome(CC.bin2int, b) == outcome(CS.bin2int, b), "c bin2int == unsigned value"
    assert CC.bin2int(b) == bin2int_c(b), "c bin2int == its call-site contract"


@harness("C15", inputs={"msg": HexStr((2, 6, 14))}, functions=[C + "hex2int"], body_of=[C + "hex2int"], config="c")
def c_hex2int_body(msg):
    assert outcome(CC.hex2int, msg) == outcome(CS.hex2int, msg), "c hex2int == value of the hex string"


PYC = repo("pyModeS.py_common")
P_ = "pyModeS.py_common."


@harness("C15", inputs={"a": HexStr((5, 6, 7))}, functions=[C + "is_icao_assigned", P_ + "is_icao_assigned"],
         body_of=[C + "is_icao_assigned", P_ + "is_icao_assigned"], config="c")
def c_is_icao_assigned_same(a):
    # no standard-derived contract is used for this one: both real bodies are executed on the same symbolic
    # address (any letter case, also the wrong lengths 5 and 7) and the outcomes compared
    assert outcome(CC.is_icao_assigned, a) == outcome(PYC.is_icao_assigned, a), \
        "is_icao_assigned: c_common and py_common agree on every address"


@harness("C15", inputs={"a": Choice(None, "")}, functions=[C + "is_icao_assigned", P_ + "is_icao_assigned"],
         body_of=[C + "is_icao_assigned", P_ + "is_icao_assigned"], config="c")
def c_is_icao_assigned_guard(a):
    assert outcome(CC.is_icao_assigned, a) == outcome(PYC.is_icao_assigned, a) == ("ret", False), \
        "is_icao_assigned: False for None and the empty string in both modules"


@harness("C15", inputs={"b": BinStr((4, 8, 24, 56))}, functions=[C + "bin2hex", P_ + "bin2hex"],
         body_of=[C + "bin2hex", P_ + "bin2hex"], config="c")
def c_bin2hex_same(b):
    assert outcome(CC.bin2hex, b) == outcome(PYC.bin2hex, b), "bin2hex: c_common and py_common agree"


@harness("C15", inputs={"msg": HexStr((14, 28))}, functions=[C + "df"], body_of=[C + "df"], config="c")
def c_df_body(msg):
    assert outcome(CC.df, msg) == outcome(CS.df, msg), "c df == min(bits 1-5, 24)"


@harness("C15", inputs={"msg": HexStr((14, 28))}, functions=[C + "typecode"], body_of=[C + "typecode"], config="c")
def c_typecode_body(msg):
    assert outcome(CC.typecode, msg) == outcome(CS.typecode_c, msg), "c typecode == ME bits 1-5 for DF17/18, -1 otherwise"


@harness("C15", inputs={"msg": HexStr((14, 28)), "encode": Choice(False, True)}, functions=[C + "crc"],
         body_of=[C + "crc"], config="c")
def c_crc_body(msg, encode):
    assert outcome(CC.crc, msg, encode) == outcome(CS.crc, msg, encode), "c crc == polynomial remainder (same contract as py)"


@harness("C15", inputs={"msg": HexStr((14, 28))}, functions=[C + "icao"], body_of=[C + "icao"], config="c")
def c_icao_body(msg):
    assert outcome(CC.icao, msg) == outcome(CS.icao, msg), "c icao == same contract as py"


@harness("C15", inputs={"msg": HexStr((14, 28))}, functions=[C + "data", C + "allzeros"], body_of=[C + "data", C + "allzeros"],
         config="c")
def c_data_allzeros_body(msg):
    assert outcome(CC.data, msg) == outcome(CS.data, msg), "c data == hex digits 9..n-6"
    if len(msg) == 28:
        assert outcome(CC.allzeros, msg) == outcome(CS.allzeros, msg), "c allzeros == (MB field == 0)"


@harness("C15", inputs={"g": BinStr((3, 8, 11))}, functions=[C + "gray2int"], body_of=[C + "gray2int"], config="c")
def c_gray2int_body(g):
    assert outcome(CC.gray2int, g) == outcome(CS.gray2int, g), "c gray2int == prefix-XOR Gray decode"


@harness("C15", inputs={"g": BinStr(11)}, functions=[C + "gray2alt"], body_of=[C + "gray2alt"], config="c")
def c_gray2alt_body(g):
    assert outcome(CC.gray2alt, g) == outcome(gray2alt_c, g), "c gray2alt == Gillham value, -1 for illegal codes"


@harness("C15", inputs={"code": BinStr(13)}, functions=[C + "altitude"], body_of=[C + "altitude"], config="c")
def c_altitude_body(code):
    assert outcome(CC.altitude, code) == outcome(CS.altitude_c, code), \
        "c altitude == Annex 10 alt13 with -999999 for 'all zero' and -1 for illegal Gillham codes"


@harness("C15", inputs={"msg": HexStr((14, 28))}, functions=[C + "altcode"], body_of=[C + "altcode"], config="c")
def c_altcode_body(msg):
    assert outcome(CC.altcode, msg) == outcome(altcode_c, msg), "c altcode == c altitude of bits 20-32; RuntimeError otherwise"


def region_squawk_uniform(idb):
    """F12: identity codes whose 13 bits are all equal (0000 and 7777 with X = the same bit)"""
    return idb == "0000000000000" or idb == "1111111111111"


@harness("C15", inputs={"idb": BinStr(13)}, functions=[C + "squawk"], body_of=[C + "squawk"], config="c",
         regions=["region_squawk_uniform"])
def c_squawk_body(idb):
    assert outcome(CC.squawk, idb) == outcome(CS.squawk, idb), "c squawk == octal digits A B C D (same contract as py)"


@harness("C15", inputs={"msg": HexStr((14, 28))}, functions=[C + "idcode"], body_of=[C + "idcode"], config="c")
def c_idcode_body(msg):
    assert outcome(CC.idcode, msg) == outcome(CS.idcode, msg), "c idcode == squawk(bits 20-32) for DF5/21"


@harness("C15", inputs={"d": BinStr(56), "t": Choice(0, 5, 17, 27)}, functions=[C + "wrongstatus"],
         body_of=[C + "wrongstatus"], config="c")
def c_wrongstatus_body(d, t):
    from contracts.common import WS_TRIPLES
    sb, msb, lsb = WS_TRIPLES[t]
    assert outcome(CC.wrongstatus, d, sb, msb, lsb) == outcome(CS.wrongstatus, d, sb, msb, lsb), "c wrongstatus == py contract"


@harness("C15", inputs={"x": RealRange(-100000, 100000)}, functions=[C + "floor"], body_of=[C + "floor"], config="c",
         idealised=True)
def c_floor_body(x):
    r = CC.floor(x)
    assert r <= x and x < r + 1, "c floor(x) <= x < floor(x)+1"


# ---------------------------------------------------------------------------------------------------------
# cprNL twin: the same obligations as C06 on the C source (hand-expanded isclose tolerance)
from contracts.c06 import (DELTA, TRANSITION, sample_interior, sample_window, sample_polar, sample_equator)


@harness("C15", inputs={"lat": RealRange(-90, 90)}, functions=[C + "cprNL"], body_of=[C + "cprNL"], idealised=True,
         config="c", sampler=sample_equator)
def c_cprnl_equator(lat):
    a = lat if lat >= 0 else -lat
    assume(a <= 1e-8)
    assert CC.cprNL(lat) == 59, "c cprNL == 59 at the equator"


@harness("C15", inputs={"lat": RealRange(-90, 90)}, functions=[C + "cprNL"], body_of=[C + "cprNL"], idealised=True,
         config="c", backend="ivbb", sampler=sample_polar)
def c_cprnl_polar(lat):
    a = lat if lat >= 0 else -lat
    assume(a >= 86.9991)
    r = CC.cprNL(lat)
    assert nl_spec.NL_low(lat, DELTA) <= r and r <= nl_spec.NL_high(lat, DELTA), "c cprNL == 2 up to 87, 1 beyond"


@harness("C15", inputs={"lat": RealRange(-90, 90), "k": Choice(*range(2, 60), quick=[2, 3, 17, 30, 44, 58, 59])},
         functions=[C + "cprNL"], body_of=[C + "cprNL"], idealised=True, config="c", backend="ivbb",
         sampler=sample_interior, timeout={"quick": 60000, "thorough": 300000})
def c_cprnl_band_interior(lat, k):
    a = lat if lat >= 0 else -lat
    lo = 0.0001 if k == 59 else TRANSITION[k + 1] + DELTA
    hi = 86.9991 if k == 2 else TRANSITION[k] - DELTA
    assume(lo <= a and a <= hi)
    assert CC.cprNL(lat) == k, "c cprNL(lat) == NL(lat) inside the band"


@harness("C15", inputs={"lat": RealRange(-90, 90), "k": Choice(*range(3, 60), quick=[3, 4, 30, 59])},
         functions=[C + "cprNL"], body_of=[C + "cprNL"], idealised=True, config="c", backend="ivbb",
         sampler=sample_window, timeout={"quick": 60000, "thorough": 300000})
def c_cprnl_transition_window(lat, k):
    a = lat if lat >= 0 else -lat
    assume(TRANSITION[k] - DELTA <= a and a <= TRANSITION[k] + DELTA)
    r = CC.cprNL(lat)
    assert k - 1 <= r and r <= k, "c cprNL returns one of the two neighbours inside a transition window"


# ---------------------------------------------------------------------------------------------------------
# sentinel-aware callers with pyModeS.common bound to the C module
from spec import adsb_spec

B05C = repo("pyModeS.decoder.bds.bds05")


def region_illegal_gillham_under_c(msg):
    """F13: TC9-18 message whose 12-bit altitude field is a Q=0 code with an illegal C1 C2 C4 pattern"""
    bits = F.hexbits(msg)
    tc = F.tc_of(bits)
    if tc is None or tc < 9 or tc > 18:
        return False
    f = F.me(bits)[8:20]
    return f[7] == "0" and int(f, 2) != 0 and adsb_spec.altitude05(msg) is None


@harness("C15", inputs={"msg": HexStr(28)}, functions=["pyModeS.decoder.bds.bds05.altitude"],
         body_of=["pyModeS.decoder.bds.bds05.altitude"], config="c", regions=["region_illegal_gillham_under_c"],
         kind="proof")
def altitude05_same_under_c_common(msg):
    if not is_symbolic():
        # natively: bind the decoder's `common` to the translated C module, as the import-time selection would
        B05C._load().common = CC._load()
    o = outcome(B05C.altitude, msg)
    if not is_symbolic():
        import pyModeS
        B05C._load().common = pyModeS.common
    assert o == outcome(adsb_spec.altitude05, msg), \
        "bds05.altitude returns the same value whichever common module pyModeS selected"
