"""Mechanical pre-processor: the Cython subset used by src/pyModeS/c_common.pyx -> Python source
that the VC generator executes (DESIGN 2.1).  Runs on every check, on the current text.

What the translation does (and therefore what the C15 proofs assume about Cython, A4):
  * `cimport` lines and `@cython.*` decorators are dropped; the libc.math names are bound to the same
    uninterpreted real functions as their numpy counterparts (cos, acos -> arccos, fabs/abs, floor);
    PyBytes_GET_SIZE / PyByteArray_GET_SIZE -> len
  * `cdef|cpdef [type] name(typed params):`  -> `def name(params):`   (parameter and return types dropped)
  * `cdef type name = expr` -> `name = expr`;  `cdef type name` (no initialiser) -> dropped;
    `cdef char name = s[i]` (a 1-character str coerced to a C char) -> `name = ord(s[i])`
  * typed memoryviews (`cdef unsigned char[:] v = b`) and C arrays (`cdef long[4] G = _G`) alias the Python
    object; `array.array('l', xs)` -> list(xs)
  * `<long> e` -> `int(e)`
  * bytes / bytearray are modelled as lists of character codes (vc/builtins_model.py); indexing yields an
    int, `.decode()` rebuilds the string
  * C integer widths of *typed variables*: every assignment to a local declared `cdef <integer type> x`
    (plain, augmented, or with initialiser), every store into a typed memoryview element and every `return` of
    a function with a C integer return type is wrapped in `_c_narrow(value, bits, signed)`: two's-complement
    truncation to the declared width (LP64: int 32, long / Py_ssize_t 64, char 8).  The VC generator proves
    the value in range from its bounds (then the wrap is the identity) or continues with the truncated value,
    so a narrowing that loses bits shows up as a disagreement with the Python twin.  Not modelled: overflow
    *inside* an expression (C `long` arithmetic; the widest intermediate is 2*cumul+1 below 2**57) and the
    OverflowError Cython raises when a Python object too large for the C type is converted (the translation
    truncates instead).
"""
import re

PRELUDE = '''import numpy as np
from vc_pyx_runtime import array, PyBytes_GET_SIZE, PyByteArray_GET_SIZE, bytes, bytearray, _as_char, _c_narrow
cos = np.cos
acos = np.arccos
fabs = abs
pi = np.pi
c_floor = np.floor
'''

CINT = {"int": (32, True), "long": (64, True), "long long": (64, True), "Py_ssize_t": (64, True),
        "unsigned char": (8, False), "char": (8, True), "signed char": (8, True),
        "unsigned int": (32, False), "unsigned long": (64, False)}


def _norm(t):
    return " ".join(t.split()) if t else t


def _split_comment(line):
    """-> (code, comment) with the comment starting at the first # outside a string literal"""
    q = None
    i = 0
    while i < len(line):
        ch = line[i]
        if q:
            if ch == "\\":
                i += 1
            elif ch == q:
                q = None
        elif ch in "\"'":
            q = ch
        elif ch == "#":
            return line[:i].rstrip(), "  " + line[i:]
        i += 1
    return line.rstrip(), ""


def _narrow(expr, ctype):
    bits, signed = CINT[ctype]
    return "_c_narrow(%s, %d, %s)" % (expr, bits, signed)


CTYPES = r"(?:unsigned\s+char|unsigned\s+int|unsigned\s+long|signed\s+char|Py_ssize_t|long\s+long|double|float|long|int|char|bint|str|bytes|bytearray|array\.array|object)"


def _params(params):
    """-> (python parameter list, {name: C integer type}, {name: element type of a typed memoryview})"""
    out, ints, views = [], {}, {}
    for p in params.split(","):
        p = p.strip()
        if not p:
            continue
        m = re.match(r"^(%s)\s*(\[[^\]]*\])?\s+(\w+)\s*(=.*)?$" % CTYPES, p)
        if m:
            t, dims, name, default = _norm(m.group(1)), m.group(2), m.group(3), m.group(4) or ""
            if dims:
                views[name] = t
            elif t in CINT:
                ints[name] = t
            out.append(name + (" " + default if default else ""))
        else:
            out.append(p)
    return ", ".join(out), ints, views


def _logical_lines(text):
    """physical lines -> logical lines: a statement continued inside brackets is joined into one line (comments
    of the continuation lines dropped); lines of a multi-line triple-quoted string are passed through"""
    buf, depth, triple = None, 0, None
    for raw in text.splitlines():
        if triple:
            yield raw, True
            if triple in raw:
                triple = None
            continue
        st = raw.strip()
        if buf is None and (st.startswith('"""') or st.startswith("'''")):
            q = st[:3]
            if st.count(q) < 2:
                triple = q
            yield raw, True
            continue
        code, comment = _split_comment(raw)
        q = None
        for ch in code:
            if q:
                if ch == q:
                    q = None
            elif ch in "\"'":
                q = ch
            elif ch in "([{":
                depth += 1
            elif ch in ")]}":
                depth -= 1
        if buf is None:
            if depth > 0:
                buf = code
            else:
                yield raw, False
        else:
            buf += " " + code.strip()
            if depth <= 0:
                yield buf, False
                buf, depth = None, 0
    if buf is not None:
        yield buf, False


def pyx_to_python(text):
    out = [PRELUDE]
    cvars, cviews, ret = {}, {}, None          # typed names of the function being translated
    for raw, verbatim in _logical_lines(text):
        if verbatim:
            out.append(raw)
            continue
        line, comment = _split_comment(raw)
        s = line.strip()
        indent = line[: len(line) - len(line.lstrip())]
        if raw.strip().startswith("# cython:") or s.startswith("cimport ") or re.match(r"^from\s+\S+\s+cimport\s", s):
            continue
        if s.startswith("@cython."):
            continue
        if not s:
            out.append(raw)
            continue
        # function headers
        m = re.match(r"^(cdef|cpdef)\s+(?:inline\s+)?(?:(%s)\s+)?(\w+)\s*\((.*)\)\s*:\s*$" % CTYPES, s)
        if m:
            plist, cvars, cviews = _params(m.group(4))
            ret = _norm(m.group(2))
            out.append("%sdef %s(%s):%s" % (indent, m.group(3), plist, comment))
            continue
        if re.match(r"^def\s", s) and not indent:
            cvars, cviews, ret = {}, {}, None
        # typed local / module declarations
        m = re.match(r"^cdef\s+(%s)\s*(\[[^\]]*\])?\s*(.*)$" % CTYPES, s)
        if m:
            ctype, dims, rest = _norm(m.group(1)), m.group(2), m.group(3)
            if "=" in rest:
                name, expr = rest.split("=", 1)
                name, expr = name.strip(), expr.strip()
                if dims is not None:
                    cviews[name] = ctype
                elif ctype in CINT:
                    cvars[name] = ctype
                    if ctype in ("char", "unsigned char", "signed char") and re.match(r"^\w+\[[^\]:]+\]$", expr):
                        # a 1-character str (or a byte) coerced to a C char
                        expr = "_as_char(%s)" % expr
                    expr = _narrow(expr, ctype)
                out.append("%s%s = %s%s" % (indent, name, expr, comment))
            else:
                for name in rest.split(","):
                    if dims is not None:
                        cviews[name.strip()] = ctype
                    elif ctype in CINT:
                        cvars[name.strip()] = ctype
                out.append("%spass%s" % (indent, comment))
            continue
        m = re.match(r"^cdef\s+(\w+)\s*=\s*(.*)$", s)          # untyped `cdef name = expr`
        if m:
            out.append("%s%s = %s%s" % (indent, m.group(1), m.group(2), comment))
            continue
        # casts
        line2 = re.sub(r"<\s*(?:long|int|double)\s*>\s*", "int(", line)
        if line2 != line:
            # close the parenthesis at the end of the expression (single cast per line in this file)
            line = line2.rstrip() + ")"
            s = line.strip()
        # stores into C-typed variables / typed memoryview elements, returns of C integer functions
        m = re.match(r"^(\w+)\s*(\+|-|\*|//|%|\^|\||&|<<|>>)?=(?!=)\s*(.+)$", s)
        if m and indent and m.group(1) in cvars:
            name, op, expr = m.groups()
            if op:
                expr = "%s %s (%s)" % (name, op, expr)
            out.append("%s%s = %s%s" % (indent, name, _narrow(expr, cvars[name]), comment))
            continue
        m = re.match(r"^(\w+)\[([^\]]+)\]\s*=(?!=)\s*(.+)$", s)
        if m and indent and m.group(1) in cviews and cviews[m.group(1)] in CINT:
            name, idx, expr = m.groups()
            out.append("%s%s[%s] = %s%s" % (indent, name, idx, _narrow(expr, cviews[name]), comment))
            continue
        m = re.match(r"^return\s+(.+)$", s)
        if m and indent and ret in CINT:
            out.append("%sreturn %s%s" % (indent, _narrow(m.group(1), ret), comment))
            continue
        out.append(line + comment)
    return "\n".join(out) + "\n"
