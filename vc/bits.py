"""Bit domain of the VC generator.

A *bit* is one of
  * the Python ints 0 / 1                          (concrete)
  * Aff(mask, c)   -- an affine form over GF(2):  c XOR (XOR of the primitive bit
                      variables whose index is set in `mask`)
  * ZB(expr)       -- an arbitrary z3 Bool term

Keeping XOR-closed terms as affine forms is the "gf2 back end" of DESIGN 2.4: the CRC
loops, the address/parity overlay and the uplink division stay inside this fragment, so
equality of two such bits is decided by comparing normal forms (exact, no solver).
Everything else is lowered to z3.
"""
import z3

_VARS = []          # index -> (name, z3 Bool)
_BYNAME = {}


_AFF2Z3 = {}      # (mask, c) -> z3 Bool
_Z3ID2AFF = {}    # z3 ast id -> Aff   (expressions are kept alive by _AFF2Z3)


def reset():
    _VARS.clear()
    _BYNAME.clear()
    _AFF2Z3.clear()
    _Z3ID2AFF.clear()
    _EXPRVARS.clear()


def newvar(name):
    if name in _BYNAME:
        raise ValueError("duplicate bit variable " + name)
    idx = len(_VARS)
    v = z3.Bool(name)
    _VARS.append((name, v))
    _BYNAME[name] = idx
    return Aff(1 << idx, 0)


_EXPRVARS = {}


def exprvar(key, make_expr):
    """pseudo-variable standing for an arbitrary z3 Bool term (e.g. "bit k of integer
    field t"): XOR-closed reasoning treats it as atomic, lowering uses the term"""
    a = _EXPRVARS.get(key)
    if a is not None:
        return a
    idx = len(_VARS)
    e = make_expr()
    _VARS.append(("expr%d" % idx, e))
    a = Aff(1 << idx, 0)
    _EXPRVARS[key] = a
    return a


def var_z3(idx):
    return _VARS[idx][1]


def var_name(idx):
    return _VARS[idx][0]


def nvars():
    return len(_VARS)


class Aff:
    __slots__ = ("mask", "c")

    def __init__(self, mask, c):
        self.mask = mask
        self.c = c & 1

    def __repr__(self):
        names = [var_name(i) for i in range(self.mask.bit_length()) if self.mask >> i & 1]
        return "Aff(%s%s)" % ("1^" if self.c else "", "^".join(names))


class ZB:
    __slots__ = ("e",)

    def __init__(self, e):
        self.e = e

    def __repr__(self):
        return "ZB(%s)" % self.e


def norm(b):
    """normalise: Aff with empty mask -> int; ZB of literal -> int"""
    if isinstance(b, Aff):
        if b.mask == 0:
            return b.c
        return b
    if isinstance(b, ZB):
        e = b.e
        if z3.is_true(e):
            return 1
        if z3.is_false(e):
            return 0
        return b
    if b is True:
        return 1
    if b is False:
        return 0
    return b


def to_z3(b):
    """bit -> z3 Bool"""
    if isinstance(b, int):
        return z3.BoolVal(bool(b))
    if isinstance(b, ZB):
        return b.e
    # Aff (memoised so that a condition built from it can be mapped back, see cond_to_bit)
    key = (b.mask, b.c)
    e = _AFF2Z3.get(key)
    if e is not None:
        return e
    terms = [var_z3(i) for i in range(b.mask.bit_length()) if b.mask >> i & 1]
    e = terms[0]
    for t in terms[1:]:
        e = z3.Xor(e, t)
    if b.c:
        e = z3.Not(e)
    _AFF2Z3[key] = e
    _Z3ID2AFF[e.get_id()] = b
    return e


def from_z3(e):
    e = z3.simplify(e) if not (z3.is_true(e) or z3.is_false(e)) else e
    if z3.is_true(e):
        return 1
    if z3.is_false(e):
        return 0
    return ZB(e)


def bxor(a, b):
    a = norm(a)
    b = norm(b)
    if isinstance(a, int) and isinstance(b, int):
        return a ^ b
    if isinstance(a, int):
        a, b = b, a
    # a symbolic
    if isinstance(b, int):
        if b == 0:
            return a
        if isinstance(a, Aff):
            return norm(Aff(a.mask, a.c ^ 1))
        return ZB(z3.Not(a.e))
    if isinstance(a, Aff) and isinstance(b, Aff):
        return norm(Aff(a.mask ^ b.mask, a.c ^ b.c))
    return ZB(z3.Xor(to_z3(a), to_z3(b)))


def bnot(a):
    return bxor(a, 1)


def band(a, b):
    a = norm(a)
    b = norm(b)
    if isinstance(a, int):
        return b if a else 0
    if isinstance(b, int):
        return a if b else 0
    if isinstance(a, Aff) and isinstance(b, Aff) and a.mask == b.mask:
        return a if a.c == b.c else 0
    return ZB(z3.And(to_z3(a), to_z3(b)))


def bor(a, b):
    a = norm(a)
    b = norm(b)
    if isinstance(a, int):
        return 1 if a else b
    if isinstance(b, int):
        return 1 if b else a
    if isinstance(a, Aff) and isinstance(b, Aff) and a.mask == b.mask:
        return a if a.c == b.c else 1
    return ZB(z3.Or(to_z3(a), to_z3(b)))


def bite(c, a, b):
    """if c then a else b   (c, a, b bits)  == b ^ c&(a^b)"""
    c = norm(c)
    if isinstance(c, int):
        return a if c else b
    d = bxor(a, b)
    if isinstance(d, int):
        if d == 0:
            return a
        # a = b^1  ->  b ^ c
        return bxor(b, c)
    return ZB(z3.If(to_z3(c), to_z3(a), to_z3(b)))


STATS = {"aff_eq": 0}


def beq_cond(a, b):
    """condition (python bool or z3 Bool) for a == b"""
    if isinstance(norm(a), Aff) or isinstance(norm(b), Aff):
        STATS["aff_eq"] += 1
    d = bxor(a, b)
    if isinstance(d, int):
        return d == 0
    return z3.Not(to_z3(d))


def cond_to_bit(c):
    if isinstance(c, bool):
        return 1 if c else 0
    a = _Z3ID2AFF.get(c.get_id())
    if a is not None:
        return a
    if z3.is_not(c):
        a = _Z3ID2AFF.get(c.arg(0).get_id())
        if a is not None:
            return bnot(a)
    return from_z3(c)


def aff_rows(bits):
    """for a list of bits return list of (mask, c) or None if any is non-affine"""
    out = []
    for b in bits:
        b = norm(b)
        if isinstance(b, int):
            out.append((0, b))
        elif isinstance(b, Aff):
            out.append((b.mask, b.c))
        else:
            return None
    return out
