"""C06 - cprNL equals the DO-260B longitude-zone function."""
from vc.api import (harness, contract, repo, outcome, assume, RealRange, Choice)
from spec import nl_spec

PC = repo("pyModeS.py_common")
P = "pyModeS.py_common."
DELTA = 1e-9          # within this distance of a transition latitude either neighbouring value is allowed
NLUSERS = ("C06", "C03", "C04", "C05")
from spec.nl_table import TRANSITION


def sample_interior(rng, fixed):
    from spec import cpr_spec
    return {"lat": cpr_spec.sample_lat_in_band(rng, fixed["k"], 2e-9)}


def sample_window(rng, fixed):
    t = float(TRANSITION[fixed["k"]])
    a = t + rng.uniform(-1, 1) * 1e-9
    return {"lat": a if rng.random() < 0.5 else -a}


def sample_polar(rng, fixed):
    r = rng.random()
    if r < 0.4:
        a = 87 + rng.uniform(-1, 1) * rng.choice([1e-3, 1e-6, 1e-9, 1e-12])
    else:
        a = rng.uniform(86.9991, 90)
    a = min(a, 90.0)
    return {"lat": a if rng.random() < 0.5 else -a}


def sample_equator(rng, fixed):
    return {"lat": rng.uniform(-1, 1) * 1e-8}




def region_87_window(lat):
    """F2: latitudes just beyond 87 degrees that np.isclose(|lat|, 87) still accepts"""
    a = lat if lat >= 0 else -lat
    return a > 87 and a <= 87.00088




@harness(NLUSERS, inputs={"lat": RealRange(-90, 90)}, functions=[P + "cprNL"], body_of=[P + "cprNL"], idealised=True,
         sampler=sample_equator, note="|lat| <= 1e-8: the isclose(lat, 0) test, decided by z3 over the reals")
def cprnl_equator(lat):
    a = lat if lat >= 0 else -lat
    assume(a <= 1e-8)
    assert PC.cprNL(lat) == 59, "cprNL == 59 at the equator"


@harness(NLUSERS, inputs={"lat": RealRange(-90, 90)}, functions=[P + "cprNL"], body_of=[P + "cprNL"], idealised=True,
         backend="ivbb", regions=["region_87_window"], sampler=sample_polar,
         note="|lat| >= 86.9991: the 87-degree tests of cprNL, decided by z3 over the reals (the sliver of closed "
              "form below the isclose window by interval B&B)")
def cprnl_polar(lat):
    a = lat if lat >= 0 else -lat
    assume(a >= 86.9991)
    r = PC.cprNL(lat)
    assert nl_spec.NL_low(lat, DELTA) <= r and r <= nl_spec.NL_high(lat, DELTA), \
        "cprNL == 2 for |lat| up to and including 87, 1 beyond 87"


@harness(NLUSERS, inputs={"lat": RealRange(-90, 90), "k": Choice(*range(2, 60))}, functions=[P + "cprNL"],
         sampler=sample_interior,
         body_of=[P + "cprNL"], idealised=True, backend="ivbb", timeout={"quick": 60000, "thorough": 300000},
         note="closed form floor(2 pi / arccos(1 - (1 - cos(pi/30)) / cos^2(pi/180 |lat|))) on the interior of NL band "
              "k, by interval branch and bound with the rounding model A3")
def cprnl_band_interior(lat, k):
    a = lat if lat >= 0 else -lat
    lo = 0.0001 if k == 59 else TRANSITION[k + 1] + DELTA
    hi = 86.9991 if k == 2 else TRANSITION[k] - DELTA
    assume(lo <= a and a <= hi)
    assert PC.cprNL(lat) == k, "cprNL(lat) == NL(lat) inside the band"


@harness(NLUSERS, inputs={"lat": RealRange(-90, 90), "k": Choice(*range(3, 60))}, functions=[P + "cprNL"],
         sampler=sample_window,
         body_of=[P + "cprNL"], idealised=True, backend="ivbb", timeout={"quick": 60000, "thorough": 300000})
def cprnl_transition_window(lat, k):
    a = lat if lat >= 0 else -lat
    assume(TRANSITION[k] - DELTA <= a and a <= TRANSITION[k] + DELTA)
    r = PC.cprNL(lat)
    assert k - 1 <= r and r <= k, "within 1e-9 degree of a transition latitude cprNL returns one of the two neighbours"


@harness("C06", inputs={"lat": RealRange(-90, 90)}, functions=[P + "cprNL"], idealised=True, backend="ivbb")
def cprnl_even(lat):
    assert PC.cprNL(lat) == PC.cprNL(-lat), "cprNL is even in lat"


def sample_near_equator(rng, fixed):
    import math
    e = rng.uniform(math.log(1e-8), math.log(1e-4))
    a = math.exp(e)
    return {"lat": a if rng.random() < 0.5 else -a}


@harness(NLUSERS, inputs={"lat": RealRange(-0.0001, 0.0001)}, functions=[P + "cprNL"], kind="bounded",
         sampler=sample_near_equator,
         note="1e-8 < |lat| < 1e-4 degree: the closed form is within a few ulp of 60, no rounding model decides "
              "floor(); checked natively on a log-uniform sample (a statement about this numpy/libm build)")
def cprnl_near_equator(lat):
    assert PC.cprNL(lat) == 59, "cprNL == 59 next to the equator"


@harness(("C03", "C04", "C05"), inputs={}, kind="table",
         note="grid-margin lemma: lets the CPR decoders use cprNL == NL on decoded latitudes although the cprNL "
              "contract allows either neighbour within 1e-9 degree of a transition latitude")
def cpr_grid_latitudes_avoid_transitions():
    from fractions import Fraction
    worst = None
    for step in (Fraction(360, 60) / 131072, Fraction(360, 59) / 131072, Fraction(90, 60) / 131072,
                 Fraction(90, 59) / 131072):
        for k in range(3, 60):
            t = TRANSITION[k]
            n = t // step
            for cand in (n * step, (n + 1) * step):
                d = abs(cand - t)
                if worst is None or d < worst:
                    worst = d
                assert d > Fraction(2, 10 ** 9), "a CPR grid latitude lies within 2e-9 degree of transition %d" % k
    assert worst > Fraction(2, 10 ** 9)


@harness(NLUSERS, inputs={}, kind="table", functions=[P + "cprNL"],
         note="87 is itself a CPR grid latitude (airborne even grid): the statement's '2 for |lat| up to and "
              "including 87' is checked at the point, where the 1e-9 tolerance clause would otherwise allow 1")
def cprnl_at_87_and_poles():
    assert PC.cprNL(87.0) == 2 and PC.cprNL(-87.0) == 2, "cprNL(+-87) == 2"
    assert PC.cprNL(90.0) == 1 and PC.cprNL(-90.0) == 1, "cprNL(+-90) == 1"
    assert PC.cprNL(0.0) == 59, "cprNL(0) == 59"
