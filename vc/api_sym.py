"""Symbolic face of vc.api: what the names mean inside the VC generator."""
import z3
from .values import *  # noqa
from . import values as V
from . import bits as B
from .interp import Builtin, PyExc, FuncValue, MergeAbort
from . import builtins_model as BM


def _noop_domain(E, a, k):
    return None


def _decorator_factory(E, a, k):
    return Builtin("decorator", lambda E, a2, k2: a2[0])


def s_assume(E, a, k):
    E.assume(a[0])
    return None


def s_require(E, a, k):
    what = a[1] if len(a) > 1 and isinstance(a[1], str) else ""
    lab = "pre:" + what
    if E.current_label:
        lab = E.current_label + "/" + lab
    E.check(a[0], lab)
    return None


def s_outcome(E, a, k):
    fn = E.force(a[0])
    try:
        v = E.call(fn, list(a[1:]), k)
    except PyExc as e:
        if e.cls == "AssertionError":
            raise
        return ("raise", e.cls)
    return ("ret", v)


def s_bits_of(E, a, k):
    v = E.force(a[0])
    w = E.concretize_int(E.force(a[1]), "bits_of width")
    if isinstance(v, bool):
        v = int(v)
    if isinstance(v, int):
        if not (0 <= v < (1 << w)):
            raise PyExc("AssertionError", "bits_of: value does not fit")
        return format(v, "0%db" % w) if w else ""
    if isinstance(v, SBool):
        v = BM.b_int(E, [v], {})
    if not isinstance(v, SInt):
        raise Unsupported("bits_of of %r" % type(v).__name__)
    if v.cells is not None and len(v.cells) <= w:
        return sbin_or_str([0] * (w - len(v.cells)) + list(v.cells))
    # range obligation 0 <= v < 2**w (proved, not assumed)
    if not (v.lo is not None and v.lo >= 0 and v.hi is not None and v.hi < (1 << w)):
        lab = "bits_of:range"
        if E.current_label:
            lab = E.current_label + "/" + lab
        E.check(z3.And(v.term >= 0, v.term < (1 << w)), lab)
    seg = IntSeg(v.term, w)
    return SBin([IRef(seg, i) for i in range(w)])


def s_hex_of_bits(E, a, k):
    s = E.force(a[0])
    case = E.force(a[1]) if len(a) > 1 else k.get("case")
    if isinstance(s, str):
        cells = V.str_to_cells(s)
    elif isinstance(s, SBin):
        cells = s.cells
    else:
        raise Unsupported("hex_of_bits of %r" % type(s).__name__)
    n = len(cells) // 4
    if len(cells) % 4:
        raise PyExc("AssertionError", "hex_of_bits: length not a multiple of 4")
    if case is None:
        upper = [True] * n
    else:
        if isinstance(case, str):
            upper = [c == "1" for c in case]
        else:
            upper = []
            for c in case.cells:
                b = V.cell_bit(c)
                upper.append(bool(b) if isinstance(b, int) else B.to_z3(b))
    if n == 0:
        return ""
    return V.shex_or_str(cells, upper)


def s_ufun(E, a, k):
    name = a[0]
    return BM.uf(E, name, *[E.force(x) for x in a[1:]])


def s_opaque(E, a, k):
    return Opaque(a[0], [x for x in a[1:]])


def s_close(E, a, k):
    return mk_bool(E.veq(a[0], a[1]))


def s_repo(E, a, k):
    return E.loader.load(a[0])


def s_abstract_int(E, a, k):
    name, lo, hi = a[0], a[1], a[2]
    key = name + "(" + ",".join(E.term_key(E.force(x)) for x in a[3:]) + ")"
    import hashlib
    t = z3.Int("abs_%s_%s" % (name, hashlib.sha1(key.encode()).hexdigest()[:12]))
    E.ps.add(z3.And(t >= lo, t <= hi))
    E.trusted.add("abstract contract: %s(args) is some integer in [%d, %d] determined by its arguments" % (name, lo, hi))
    return SInt(t, None, lo, hi)


def s_abstract_real(E, a, k):
    name, lo, hi = a[0], a[1], a[2]
    key = name + "(" + ",".join(E.term_key(E.force(x)) for x in a[3:]) + ")"
    import hashlib
    t = z3.Real("absr_%s_%s" % (name, hashlib.sha1(key.encode()).hexdigest()[:12]))
    E.ps.add(z3.And(t >= lo, t <= hi))
    E.trusted.add("abstract contract: %s(args) is some real in [%s, %s] determined by its arguments" % (name, lo, hi))
    return SReal(t)


def s_hexdigit_value(E, a, k):
    v = E.force(a[0])
    if isinstance(v, int):
        ch = chr(v)
        return int(ch, 16) if ch in "0123456789abcdefABCDEF" else None
    if isinstance(v, SInt) and v.origin is not None and v.origin[0] == "hexchar":
        return int_from_cells(v.origin[1])
    return None


def s_new_object(E, a, k):
    from .interp import ClassValue
    cls = E.force(a[0])
    if not isinstance(cls, ClassValue):
        raise Unsupported("new_object of non-class")
    o = E.new_heap(SObject(cls))
    for kk, v in k.items():
        o.attrs[kk] = v
    return o


def members():
    m = {}
    for n in ("BinStr", "HexStr", "IntRange", "RealRange", "RealVec", "Bool", "Choice"):
        m[n] = Builtin(n, _noop_domain)
    m["harness"] = Builtin("harness", _decorator_factory)
    m["property_level"] = Builtin("property_level", _noop_domain)
    m["contract"] = Builtin("contract", _decorator_factory)
    m["assume"] = Builtin("assume", s_assume)
    m["require"] = Builtin("require", s_require)
    m["outcome"] = Builtin("outcome", s_outcome)
    m["bits_of"] = Builtin("bits_of", s_bits_of)
    m["hex_of_bits"] = Builtin("hex_of_bits", s_hex_of_bits)
    m["ufun"] = Builtin("ufun", s_ufun)
    m["opaque"] = Builtin("opaque", s_opaque)
    m["is_symbolic"] = Builtin("is_symbolic", lambda E, a, k: True)
    m["close"] = Builtin("close", s_close)
    m["outcome_close"] = Builtin("outcome_close", s_close)
    m["repo"] = Builtin("repo", s_repo)
    m["new_object"] = Builtin("new_object", s_new_object)
    m["hexdigit_value"] = Builtin("hexdigit_value", s_hexdigit_value)
    m["exact"] = Builtin("exact", lambda E, a, k: a[0])
    m["frac"] = Builtin("frac", lambda E, a, k: BM.binop(E, "/", E.force(a[0]), E.force(a[1])))
    m["pi_const"] = Builtin("pi_const", lambda E, a, k: BM.pi_value(E))
    m["abstract_int"] = Builtin("abstract_int", s_abstract_int)
    m["abstract_real"] = Builtin("abstract_real", s_abstract_real)
    m["AssumptionFailed"] = None
    from .interp import ClassValue
    m["Domain"] = ClassValue("Domain", [], {}, "vc.api.Domain")
    for n in ("NATIVE_ABSTRACT", "NATIVE_OPAQUE", "NATIVE_UF"):
        m[n] = SDict({})
    return m
