"""Frame helpers of the specification library: bit positions are 1-based and inclusive,
exactly as the standards print them (Annex 10 Vol IV, DO-260B, Doc 9871)."""
from vc.api import bits_of, hex_of_bits


def hexbits(msg):
    """the 4*len(msg) bits of a hex string, most significant first"""
    if len(msg) == 0:
        return ""
    return bits_of(int(msg, 16), 4 * len(msg))


def field(bits, first, last):
    """unsigned value of bits first..last (1-based, inclusive)"""
    return int(bits[first - 1:last], 2)


def bit(bits, pos):
    """value (0/1) of bit `pos` (1-based)"""
    return int(bits[pos - 1:pos], 2)


def me(bits):
    """the 56-bit ME / MB field of a 112-bit frame (bits 33-88)"""
    return bits[32:88]


def df_of(bits):
    v = field(bits, 1, 5)
    return v if v < 24 else 24


def tc_of(bits):
    """ADS-B type code (ME bits 1-5) of a DF17/18 frame, else None"""
    d = df_of(bits)
    if d == 17 or d == 18:
        return field(bits, 33, 37)
    return None
