"""regenerates /verif/MANIFEST.json from the table below (run: python3 props/gen_manifest.py)"""
import json, os
V = os.path.dirname(os.path.dirname(os.path.abspath(__file__)))
props = [json.loads(l) for l in open(os.path.join(V, "properties.jsonl"))]

NOTE = ("Trusted: our AST->VC symbolic executor and its models of the Python builtins (A1; differentially "
        "cross-checked against CPython on every run, refutations replayed on the real code), z3/cvc5, the "
        "specification library transcribed from the standards (A5), floats as reals (A2) where stated.")

CHECKS = {
 "C07": dict(cat="proof", tech="contract-based deductive verification: AST-generated VCs over the real source text, z3 (bit-level/LIA), native replay",
      text="Every function between the property and the bits (gray2int, gray2alt, altitude, altcode, bds05.altitude, adsb.altitude, surv.altitude) has a functional contract taken from Annex 10 (spec/alt_spec.py); each body is symbolically executed from /repo's current text with callees replaced by their contracts and the resulting VCs are discharged by z3 for all 8192/4096 codes and all other frame bits at once; the float truncation int(N*3.28084) has a robustness side-obligation.",
      ref="DESIGN.md section 5 C07"),
}

NA = {}

def main():
    checks = []
    for pid, c in sorted(CHECKS.items()):
        checks.append({
            "property_id": pid,
            "quick_cmd": "./check %s quick" % pid,
            "thorough_cmd": "./check %s thorough" % pid,
            "evidence_file": "evidence/%s.json" % pid,
            "replay_cmd_template": "./check %s --replay {path}" % pid,
            "engine": "vc",
            "level_claimed": {"category": c["cat"], "text": c["text"], "design_ref": c["ref"]},
            "level_note": c.get("note", NOTE),
            "technique": c["tech"],
        })
    na = []
    for p in props:
        if p["id"] not in CHECKS:
            na.append({"property_id": p["id"], "reason": NA.get(p["id"], "check not built yet (build in progress; DESIGN.md section 5 has the plan)")})
    m = {"version": 1,
         "setup_cmd": "./check --selftest",
         "hooks": {"guard": "PYMODES_VERIF",
                   "enable": "no hooks: contracts are sidecar files in /verif; the repository source is read as text by the VC generator and imported unmodified for native replay",
                   "baseline_off_cmd": "cd /repo && /venv/bin/python -m pytest -ra -q -p no:cacheprovider --timeout=900 --continue-on-collection-errors",
                   "source_commits": [], "add_only": True},
         "engines": [{"name": "vc", "path": "vc/", "serves_properties": sorted(CHECKS),
                      "kind_free_text": "contract-based deductive verification: sidecar contracts (contracts/, spec/), VC generation by symbolic execution of the real Python AST (vc/interp.py), back ends z3 / cvc5 / GF(2) affine normal forms / interval B&B, native replay under /venv/bin/python"}],
         "checks": checks,
         "notes": "see DESIGN.md; known findings in known_findings.json",
         "not_applicable": na}
    json.dump(m, open(os.path.join(V, "MANIFEST.json"), "w"), indent=1)

if __name__ == "__main__":
    main()
