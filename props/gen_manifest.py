"""regenerates /verif/MANIFEST.json from the table below (run: python3 props/gen_manifest.py)"""
import json, os
V = os.path.dirname(os.path.dirname(os.path.abspath(__file__)))
props = [json.loads(l) for l in open(os.path.join(V, "properties.jsonl"))]

NOTE = ("Trusted: our AST->VC symbolic executor and its models of the Python builtins (A1; differentially "
        "cross-checked against CPython on every run, refutations replayed on the real code), z3/cvc5, the "
        "specification library transcribed from the standards (A5), floats as reals (A2) where stated.")

TECH = "contract-based deductive verification: sidecar contracts, VCs generated from the real source text by symbolic execution of the AST, discharged by %s; refutations replayed natively"

CHECKS = {
 "C01": dict(cat="proof", tech=TECH % "GF(2)-affine normal forms (crc == polynomial remainder, closure, linearity), z3, exhaustive table evaluation (syndrome combinatorics)",
      text="crc (both lengths, both modes) is proved equal to the textbook bit-serial remainder for all 2^56+2^112 frames by comparing GF(2)-affine normal forms of the 24 result bits generated from the real loop nest; encode-independence, parity closure and linearity are lemmas over that contract; weight<=5 / burst<=24 detection reduces by linearity to a finite fact about the 56/112 syndromes, evaluated exhaustively; _check_msg is proved against its admission rule. crc_legacy (numpy) is only checked bounded.",
      ref="DESIGN.md section 5 C01"),
 "C02": dict(cat="proof", tech=TECH % "GF(2)-affine normal forms + z3",
      text="icao body proved against the Annex 10 contract (AA upper-case for DF11/17/18, parity xor AP for DF0/4/5/16/20/21, None otherwise) for every frame and every letter-case assignment; transponder-side round trips for all 2^24 addresses and payloads; adsb.icao / allcall.icao wrappers.",
      ref="DESIGN.md section 5 C02"),
 "C03": dict(cat="proof", tech=TECH % "z3 / cvc5 over linear mixed integer-real arithmetic, one VC per NL band (59) x band offset x time order x argument order",
      text="The real airborne_position body is symbolically executed on frames produced by the DO-260B encoder (spec/cpr_spec.py) from two real positions up to 3 NM apart in latitude and 1 NM in longitude; per NL band the VC 'result within one quantisation step of the true position fed to the encoder for the newer frame (longitude modulo 360); None iff the bands differ' is discharged over the reals; cprNL is replaced by its contract NL (proved in C06, with the grid-margin lemma); position() dispatch against opaque callee contracts. Quick explores 10 of the 59 bands, thorough all.",
      ref="DESIGN.md section 5 C03", note=NOTE + " Floats as reals (A2): binary64 rounding inside the decoder is outside the proof; the native cross-check samples it."),
 "C04": dict(cat="proof", tech=TECH % "z3 over linear mixed integer-real arithmetic, one VC per NL band x parity x airborne/surface",
      text="airborne_position_with_ref and surface_position_with_ref are proved to return a position within one quantisation step of the true position fed to the DO-260B encoder (longitude modulo 360) for every reference inside the closed half-zone box (minus one quantisation step), and the same result for a second, independent reference in that box; position_with_ref dispatch by type code. Frame condition: a decode is still right after earlier decodes by the other and by the same decoder (two-call obligation; no general purity proof, DESIGN A8).",
      ref="DESIGN.md section 5 C04", note=NOTE + " Floats as reals (A2)."),
 "C05": dict(cat="proof", tech=TECH % "z3 / cvc5 over linear mixed integer-real arithmetic, one VC per NL band x band offset x time order x longitude wrap",
      text="surface_position (after the fix of the equator / antimeridian defect F9) is proved to return a position within one quantisation step of the newer frame's true position (longitude modulo 360) for every receiver within 0.74 degree of latitude and 45 NM / 44 degrees of longitude, in any 360-degree representation of the receiver longitude, for pairs up to 0.7 NM apart; None iff the NL bands differ. Quick explores 4 of the 59 bands, thorough all.",
      ref="DESIGN.md section 5 C05", note=NOTE + " Floats as reals (A2)."),
 "C06": dict(cat="proof", tech=TECH % "z3 over the reals (threshold tests) and interval branch-and-bound with a binary64 rounding model (closed form, 58 bands and 57 transition windows)",
      text="cprNL's body is symbolically executed; the isclose/87-degree tests are decided by z3 against the DO-260B staircase (40-digit rational transition table), the closed form floor(2pi/arccos(...)) by rigorous interval B&B on every band interior and inside every 1e-9 window; evenness by z3; the sub-band 1e-8..1e-4 degree next to the equator is only checked natively (bounded) because no rounding model can decide floor() there.",
      ref="DESIGN.md section 5 C06", note=NOTE + " A3: libm/numpy elementary functions within 4 ulp; mpmath interval arithmetic trusted."),
 "C07": dict(cat="proof", tech=TECH % "z3 (bit level / linear integer arithmetic)",
      text="Every function between the property and the bits (gray2int, gray2alt, altitude, altcode, bds05.altitude, adsb.altitude, surv.altitude) has a functional contract taken from Annex 10 (spec/alt_spec.py); each body is symbolically executed from /repo's current text with callees replaced by their contracts and the VCs are discharged for all 8192/4096 codes and all other frame bits at once; int(N*3.28084) has a robustness side-obligation.",
      ref="DESIGN.md section 5 C07"),
 "C08": dict(cat="proof", tech=TECH % "z3 + GF(2)-affine forms (DF11 parity overlay)",
      text="squawk/idcode, surv.fs/dr/um/identity, allcall.capability/interrogator and the TC28 squawk are proved field by field against Annex 10 positions for all frames; the interrogator code is proved for every frame written as data||parity(data) xor r.",
      ref="DESIGN.md section 5 C08"),
 "C09": dict(cat="proof", tech=TECH % "z3 (linear / polynomial integer arithmetic, uninterpreted sqrt and atan2)",
      text="airborne_velocity is proved against the DO-260B TC19 layout for every frame of subtypes 1-4 (case split on subtype and the two sign bits, all field values symbolic), altitude_diff and surface_velocity (all 128 movement codes, all track codes) against their tables, velocity() dispatch against opaque callee contracts; sqrt/atan2 are uninterpreted (the spec uses the same symbols), the int(sqrt()) truncation margin is argued in DESIGN.md.",
      ref="DESIGN.md section 5 C09"),
 "C10": dict(cat="proof", tech=TECH % "z3",
      text="callsign/category/cs20 bodies proved against the six-bit character table for every frame; round trip for all 37^8 legal identifications (symbolic codes) position by position.",
      ref="DESIGN.md section 5 C10"),
 "C12": dict(cat="proof", tech=TECH % "z3",
      text="Each isNN body is proved equal to an exact boolean contract (status / reserved-bit format rules and plausibility envelope of the register, spec/bds_spec.py), which gives format-soundness and completeness on in-envelope data at once; infer() is proved equal to EMPTY / type-code register / sorted comma-joined set over those contracts for every 112-bit frame and both mrar values; is60's Mach/IAS test uses an uninterpreted MACH2CAS (its equations are C20). is50or60's nearest-vector arbitration goes through numpy (NaN, linalg.norm, nanargmin) and is only checked bounded. Known finding F15 (is50 ignores the roll sign bit) is excluded by its region. Frame condition for is60 / is40 / is20: the verdict is unchanged by an earlier call on the same payload under another header (two-call obligation; DESIGN A8).",
      ref="DESIGN.md section 5 C12"),
 "C13": dict(cat="proof", tech=TECH % "z3 + exhaustive table evaluation (uncertainty tables)",
      text="All TC28/TC29 (subtype 0 and 1)/TC31 field decoders are proved against DO-260B bit ranges for every frame; NUCp/NIC/NAC/SIL look-ups are proved total on their domain (TC x supplement x version) with RuntimeError outside it; table monotonicity by exhaustive evaluation. Known finding F16 (horizontal_mode bit range, medium-confidence oracle) is excluded by its region predicate.",
      ref="DESIGN.md section 5 C13"),
 "C11": dict(cat="proof", tech=TECH % "z3 (linear integer/real arithmetic over symbolic frame bits)",
      text="Each of the 29 scalar field decoders plus wind44/temp44/ovc10 is proved against the Doc 9871 layout table (status, sign, msb, lsb, LSB, offset, wrap) for every 112-bit frame; cap17 deductively for all patterns with <=2 capability bits and bounded otherwise (2^24 list shapes); re-export identity by table evaluation. Known finding F14 (vr53 special case) is excluded by its region predicate.",
      ref="DESIGN.md section 5 C11"),
 "C14": dict(cat="proof", tech=TECH % "z3 (outcome analysis: every path ends in return or raise of a modelled exception class)",
      text="For 112-bit frames the body obligations of C02-C13 state the exact outcome of every exported decoder (value for the documented DF/TC/subtype set, RuntimeError otherwise); C14 adds every adsb/commb/surv/allcall/common function on well-formed short frames, oe_flag, and tell() (proved to return or raise RuntimeError for every frame, with abstract contracts for infer/callsign). The type-guard clause of the four raw position decoders is sampled natively (bounded). Known findings F17a-d (unguarded position decoders / oe_flag) and F18 (ValueError on short frames) are excluded by their regions.",
      ref="DESIGN.md section 5 C14"),
 "C15": dict(cat="proof", tech=TECH % "GF(2)-affine normal forms, z3, interval B&B - on a mechanical Python translation of c_common.pyx regenerated on every run",
      text="Every function of c_common.pyx is translated mechanically (vc/pyx2py.py: cdef/cpdef headers, typed locals, memoryviews, casts, C-API length macros; bytes as lists of character codes) and proved against the same functional contract as its py_common twin, modulo the documented sentinels; hence both modules agree on the common domain. crc / hex2bin / bin2int / hex2int are decided in the affine bit domain, cprNL by z3 + interval B&B. bds05.altitude is re-verified with pyModeS.common bound to the C module (known finding F13). The Cython compiler, C integer widths and the compiled extension are outside the proof (A4).",
      ref="DESIGN.md section 5 C15", note=NOTE + " A4: the .pyx subset means what vc/pyx2py.py says; Cython / C tool-chain and the pre-built .so are not in the loop (Cython is not installed, the extension cannot be rebuilt from a modified .pyx)."),
 "C16": dict(cat="other", tech="deductive VCs (z3 / affine forms) for the AVR raw framer as a fold of a per-byte transition and for NetSource.handle_messages + bounded native enumeration of stream segmentations against reference framers (labelled bounded; the only coverage of the Beast and Skysense framers)",
      text="AVR raw framer: for every framer state and every byte value one call of the real read_raw_buffer on a 1-byte buffer equals the per-byte transition raw_step, a read of 2 or 3 arbitrary bytes is the composition of the transitions with all state in (current_msg, msg_stop), and feeding the bytes one read at a time gives the same messages and state - chunk independence for streams of any length follows by associativity of folds (argued, not machine-checked). NetSource.handle_messages is proved to forward every long DF17/18 and DF20/21 message exactly once and in order across two calls (four symbolic messages, any split). All three framers (raw, Beast, Skysense) are additionally run natively on sampled multi-frame streams (0x1A anywhere) under every single and double cut and random multi-cuts and compared with whole-stream reference parsers: bounded, and the only coverage of the Beast and Skysense framers. Known finding F11 (Beast reader, read ending after 0x1A) is listed.",
      ref="DESIGN.md section 5 C16"),
 "C17": dict(cat="other", tech="contract-based deductive verification of Decode.process_raw by induction over the history (record invariant: base + one-call step from an arbitrary record; z3, abstract callee contracts) + bounded trajectory simulation for the end-to-end accuracy clause",
      text="Induction over the message history with a record invariant: base (the first message of an aircraft, every type code, creates a record inside the invariant) and step (from an arbitrary record inside the invariant - case split over every optional key process_raw reads, symbolic times / position / stored frames - one more DF17 message of every type code and parity, or a Comm-B reply of each inference class, known or unknown address, either letter case): never raises, invariant preserved, keys canonical, sender listed within 59 s / absent after 61 s, bystander kept exactly while tnow - live <= 60, Comm-B never creates a record; plus the plumbing of the accuracy clause (a stored position is position_with_ref(this message, fix younger than 180 s) or position(even, odd) with this message as the newer of a pair less than 10 s apart). Callees enter by abstract contracts whose exact versions are discharged in C03-C05, C10, C12. Not machine-checked: the induction principle itself and the kinematic side conditions; the end-to-end 0.001-degree clause is simulated (bounded).",
      ref="DESIGN.md section 5 C17"),
 "C18": dict(cat="proof", tech=TECH % "GF(2)-affine normal forms (uplink_icao) and z3 (fields)",
      text="uplink_icao is proved to return A for every frame data || parity(data) xor top24(A x G) (all 2^24 addresses, all payloads, both lengths) by comparing affine normal forms generated from the real bit-serial loop; uf/bds/pr/ic/lockout are proved against Annex 10 field positions for every frame; uplink_fields() agrees with them wherever they are not None.",
      ref="DESIGN.md section 5 C18"),
 "C19": dict(cat="other", tech="contract-based deductive verification (z3 over linear real arithmetic + affine bit domain) of _check_preamble and of one call of _process_buffer on a symbolic frame; bounded simulation of frame sequences in noise",
      text="Per-frame recovery lemma: for every DF20/21, DF4/5/11 frame content (and every DF17 content with arbitrary parity), every per-pulse amplitude in [0.3, 1.4], every quiet-sample value below 0.2 x 0.3 and 10 dB below the pulses, at several start offsets, the real _process_buffer returns exactly that frame as upper-case hex - and returns a DF17 frame iff its checksum is zero (113 merged slicer steps, unbounded over contents and amplitudes). _check_preamble and _check_msg are proved against their definitions. Sequences of frames in noise through _calc_noise are only simulated (bounded); the '10 dB above the noise floor' clause is formalised as stated in DESIGN.md.",
      ref="DESIGN.md section 5 C19"),
 "C20": dict(cat="proof", tech=TECH % "z3 over the reals with ground instances of the sqrt / pow / exp / cos axioms; interval branch-and-bound (ISA numerics)",
      text="The four conversion pairs are proved mutual inverses and every conversion strictly increasing in speed, as real identities over the executed bodies of extra/aero.py (pow, sqrt uninterpreted with instantiated axioms (b^e)^y = b^(ey), sqrt(x)^2 = x, monotonicity); p, rho, T positive and within 0.1 % of the two-layer ICAO atmosphere and continuous at 11 km by interval B&B over [-500 m, 20 km]; distance symmetric (cos even) and bearing in [0,360) by z3. Sea-level equalities, TAS>=EAS / CAS>=EAS, numpy-array arguments and agreement with haversine are only checked bounded.",
      ref="DESIGN.md section 5 C20", note=NOTE + " A2 floats as reals; A3 rounding model in the interval back end; the listed axiom instances."),
}

NA = {}

def main():
    checks = []
    for pid, c in sorted(CHECKS.items()):
        checks.append({
            "property_id": pid,
            "quick_cmd": "./check %s quick" % pid,
            "thorough_cmd": "./check %s thorough" % pid,
            "evidence_file": "evidence/%s.json" % pid,
            "replay_cmd_template": "./check %s --replay {path}" % pid,
            "engine": "vc",
            "level_claimed": {"category": c["cat"], "text": c["text"], "design_ref": c["ref"]},
            "level_note": c.get("note", NOTE),
            "technique": c["tech"],
        })
    na = []
    for p in props:
        if p["id"] not in CHECKS:
            na.append({"property_id": p["id"], "reason": NA.get(p["id"], "check not built yet (build in progress; DESIGN.md section 5 has the plan)")})
    m = {"version": 1,
         "setup_cmd": "./check --selftest",
         "hooks": {"guard": "PYMODES_VERIF",
                   "enable": "no hooks: contracts are sidecar files in /verif; the repository source is read as text by the VC generator and imported unmodified for native replay",
                   "baseline_off_cmd": "cd /repo && /venv/bin/python -m pytest -ra -q -p no:cacheprovider --timeout=900 --continue-on-collection-errors",
                   "source_commits": [], "add_only": True},
         "engines": [{"name": "vc", "path": "vc/", "serves_properties": sorted(CHECKS),
                      "kind_free_text": "contract-based deductive verification: sidecar contracts (contracts/, spec/), VC generation by symbolic execution of the real Python AST (vc/interp.py), back ends z3 / cvc5 / GF(2) affine normal forms / interval B&B, native replay under /venv/bin/python"}],
         "checks": checks,
         "notes": "see DESIGN.md; known findings in known_findings.json",
         "not_applicable": na}
    json.dump(m, open(os.path.join(V, "MANIFEST.json"), "w"), indent=1)

if __name__ == "__main__":
    main()
