"""Mechanical pre-processor: the Cython subset used by src/pyModeS/c_common.pyx -> Python source
that the VC generator executes (DESIGN 2.1).  Runs on every check, on the current text.

What the translation does (and therefore what the C15 proofs assume about Cython, A4):
  * `cimport` lines and `@cython.*` decorators are dropped; the libc.math names are bound to the same
    uninterpreted real functions as their numpy counterparts (cos, acos -> arccos, fabs/abs, floor);
    PyBytes_GET_SIZE / PyByteArray_GET_SIZE -> len
  * `cdef|cpdef [type] name(typed params):`  -> `def name(params):`   (parameter and return types dropped)
  * `cdef type name = expr` -> `name = expr`;  `cdef type name` (no initialiser) -> dropped;
    `cdef char name = s[i]` (a 1-character str coerced to a C char) -> `name = ord(s[i])`
  * typed memoryviews (`cdef unsigned char[:] v = b`) and C arrays (`cdef long[4] G = _G`) alias the Python
    object; `array.array('l', xs)` -> list(xs)
  * `<long> e` -> `int(e)`
  * bytes / bytearray are modelled as lists of character codes (vc/builtins_model.py); indexing yields an
    int, `.decode()` rebuilds the string
  C integer wrap-around is not modelled: every integer is a Python int.  The widest values are the
  24-bit CRC register and 8-bit bytes, far below 2**31, which is argued in DESIGN.md rather than proved.
"""
import re

PRELUDE = '''import numpy as np
from vc_pyx_runtime import array, PyBytes_GET_SIZE, PyByteArray_GET_SIZE, bytes, bytearray, _as_char
cos = np.cos
acos = np.arccos
fabs = abs
pi = np.pi
c_floor = np.floor
'''

CTYPES = r"(?:unsigned\s+char|unsigned\s+int|unsigned\s+long|signed\s+char|Py_ssize_t|long\s+long|double|float|long|int|char|bint|str|bytes|bytearray|array\.array|object)"


def _strip_param_types(params):
    out = []
    for p in params.split(","):
        p = p.strip()
        if not p:
            continue
        m = re.match(r"^(?:%s)\s*(?:\[[^\]]*\])?\s+(\w+\s*(?:=.*)?)$" % CTYPES, p)
        out.append(m.group(1) if m else p)
    return ", ".join(out)


def pyx_to_python(text):
    out = [PRELUDE]
    for line in text.splitlines():
        s = line.strip()
        indent = line[: len(line) - len(line.lstrip())]
        if s.startswith("# cython:") or s.startswith("cimport ") or re.match(r"^from\s+\S+\s+cimport\s", s):
            continue
        if s.startswith("@cython."):
            continue
        # function headers
        m = re.match(r"^(cdef|cpdef)\s+(?:inline\s+)?(?:%s\s+)?(\w+)\s*\((.*)\)\s*:\s*$" % CTYPES, s)
        if m:
            out.append("%sdef %s(%s):" % (indent, m.group(2), _strip_param_types(m.group(3))))
            continue
        # typed local / module declarations
        m = re.match(r"^cdef\s+(%s)\s*(\[[^\]]*\])?\s*(.*)$" % CTYPES, s)
        if m:
            ctype, dims, rest = m.group(1), m.group(2), m.group(3)
            if "=" in rest:
                name, expr = rest.split("=", 1)
                name, expr = name.strip(), expr.strip()
                if ctype in ("char", "unsigned char", "signed char") and dims is None and \
                   re.match(r"^\w+\[[^\]:]+\]$", expr):
                    # a 1-character str (or a byte) coerced to a C char
                    expr = "_as_char(%s)" % expr
                out.append("%s%s = %s" % (indent, name, expr))
            else:
                out.append("%spass" % indent)
            continue
        m = re.match(r"^cdef\s+(\w+)\s*=\s*(.*)$", s)          # untyped `cdef name = expr`
        if m:
            out.append("%s%s = %s" % (indent, m.group(1), m.group(2)))
            continue
        # casts
        line2 = re.sub(r"<\s*(?:long|int|double)\s*>\s*", "int(", line)
        if line2 != line:
            # close the parenthesis at the end of the expression (single cast per line in this file)
            line2 = line2.rstrip() + ")"
        out.append(line2)
    return "\n".join(out) + "\n"
